------------------------------- MODULE Routes -------------------------------
(***************************************************************************)
(* C12: all output routes give the same document.                          *)
(*                                                                         *)
(* The state is what has been written: a set of entries                    *)
(*   [route, kind, opts, doc]                                              *)
(* where doc is the abstract document Doc(kind, effective options).  One   *)
(* action per route: SavePath (extension decides, case-insensitively),     *)
(* SaveStream (kind=...), DataURI, SvgInline, Svgz, Cli (flags -> keywords *)
(* of the serialiser of the output file, unsupported flags dropped),       *)
(* CliTerminal (no output file: QRCode.terminal).                          *)
(* The invariant SameDocument says that entries with the same effective    *)
(* kind and options hold the same document; every step is exported as a    *)
(* test vector: the route call plus the reference call                     *)
(* save(stream, kind=K, **effective options) it must agree with.           *)
(***************************************************************************)
EXTENDS Integers, Sequences, FiniteSets, TLC, Json

CONSTANTS MaxOpts      \* number of options set at once (1: each single option, 2: pairs)

Kinds == {"svg", "png", "eps", "txt", "pdf", "ans", "pbm", "pam", "ppm", "tex", "xbm", "xpm"}
Colour15 == {"finder_dark", "finder_light", "data_dark", "data_light", "version_dark", "version_light", "format_dark", "format_light",
             "alignment_dark", "alignment_light", "timing_dark", "timing_light", "separator", "dark_module", "quiet_zone"}
SvgOnly == {"xmldecl", "svgns", "title", "desc", "svgid", "svgclass", "lineclass", "omitsize", "unit", "svgversion", "nl", "draw_transparent", "encoding"}
\* keywords each serialiser documents (docs/serializers.rst, docs/command-line.rst)
Supported(k) ==
  CASE k = "svg" -> {"scale", "border", "dark", "light"} \cup Colour15 \cup SvgOnly
    [] k = "png" -> {"scale", "border", "dark", "light", "dpi", "compresslevel"} \cup Colour15
    [] k = "ppm" -> {"scale", "border", "dark", "light"} \cup Colour15
    [] k \in {"eps", "pam", "xpm"} -> {"scale", "border", "dark", "light"}
    [] k = "pdf" -> {"scale", "border", "dark", "light", "compresslevel"}
    [] k = "txt" -> {"border", "dark", "light"}
    [] k = "ans" -> {"border"}
    [] k = "pbm" -> {"scale", "border", "plain"}
    [] k = "xbm" -> {"scale", "border", "name"}
    [] k = "tex" -> {"scale", "border", "dark", "unit", "url"}
\* options that can be given on the command line (flag names are a matter of the harness); "unit" is documented as an SVG option
CliOptions == {"scale", "border", "dark", "light", "dpi", "xmldecl", "svgns", "title", "desc", "svgid", "svgclass", "lineclass", "omitsize",
               "unit", "svgversion", "nl", "draw_transparent", "encoding"} \cup Colour15
CliSupported(k) == IF k = "tex" THEN (Supported(k) \cap CliOptions) \ {"unit"} ELSE Supported(k) \cap CliOptions
\* option sets: an option set is a set of option names; the harness gives every name one fixed non-default value
AllOptions == UNION {Supported(k) : k \in Kinds}
OptSets == {{}} \cup {{x} : x \in AllOptions} \cup (IF MaxOpts >= 2 THEN {{x, y} : x \in AllOptions, y \in AllOptions} ELSE {})

Routes == {"path", "path_upper_ext", "stream", "stream_upper_kind", "data_uri", "inline", "svgz_file", "svgz_stream", "cli", "cli_upper_ext"}
Applicable(k, r, S) ==
  /\ S \subseteq (IF r \in {"cli", "cli_upper_ext"} THEN CliOptions ELSE Supported(k))
  /\ (r = "data_uri" => k \in {"png", "svg"})
  /\ (r = "inline" => k = "svg" /\ S \cap {"xmldecl", "svgns", "nl"} = {})
  /\ (r \in {"svgz_file", "svgz_stream"} => k = "svg")
  /\ (r \in {"cli", "cli_upper_ext"} => k # "ans")        \* the CLI has no .ans route besides the terminal
  /\ (r \in {"cli", "cli_upper_ext"} /\ k = "tex" => "unit" \notin S)   \* --unit is documented for SVG; its effect on LaTeX output is left open

\* effective options of a route: [given |-> options passed through, forced |-> options the route sets itself]
Effective(k, r, S) ==
  CASE r \in {"path", "path_upper_ext", "stream", "stream_upper_kind", "svgz_file", "svgz_stream"} -> [given |-> S, forced |-> {}]
    [] r = "data_uri" -> [given |-> S, forced |-> IF k = "svg" THEN ({"xmldecl_false", "nl_false"} \ {x \in {"xmldecl_false", "nl_false"} :
                                                                     (x = "xmldecl_false" /\ "xmldecl" \in S) \/ (x = "nl_false" /\ "nl" \in S)}) ELSE {}]
    [] r = "inline" -> [given |-> S, forced |-> {"xmldecl_false", "svgns_false", "nl_false"}]
    [] r \in {"cli", "cli_upper_ext"} -> [given |-> S \cap CliSupported(k), forced |-> {}]

VARIABLES written, last
vars == <<written, last>>
Init == written = {} /\ last = [route |-> "none"]
Write(k, r, S) ==
  /\ written = {}            \* one write per behaviour: the order of writes does not matter for the property
  /\ Applicable(k, r, S)
  /\ LET e == Effective(k, r, S)
         entry == [route |-> r, kind |-> k, opts |-> S, eff |-> e, doc |-> <<k, e.given, e.forced>>] IN
     /\ written' = written \cup {entry}
     /\ last' = entry
Next == \E k \in Kinds : \E r \in Routes : \E S \in OptSets : Write(k, r, S)
Spec == Init /\ [][Next]_vars

\* entries whose effective kind and options agree hold the same document (in the model by construction of doc; the
\* implementation is bound to it by the vectors)
SameDocument == \A x, y \in written : (x.kind = y.kind /\ x.eff = y.eff) => x.doc = y.doc
\* the command line drops exactly the options the serialiser of the output file does not document
CliDropsUnsupported == \A x \in written : x.route \in {"cli", "cli_upper_ext"} => x.eff.given = x.opts \cap CliSupported(x.kind)
Export == last.route # "none" => PrintT(<<"VECTOR", ToJson([kind |-> last.kind, route |-> last.route, opts |-> last.opts,
                                                             given |-> last.eff.given, forced |-> last.eff.forced])>>)
=============================================================================
