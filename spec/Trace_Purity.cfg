SPECIFICATION TraceSpec
CHECK_DEADLOCK FALSE
PROPERTY TablesConstant
PROPERTY ReturnedAppendOnly
POSTCONDITION AllJudged
