"""Seeded content generators by class (the concretisation of abstract inputs)."""
import random

ALNUM = '0123456789ABCDEFGHIJKLMNOPQRSTUVWXYZ $%*+-./:'
LATIN1_EXTRA = 'abcxyz,;!?äöüßéñ§© ÿ'
UTF8_ONLY = '€Ωж中√😀'          # not latin-1, not Shift JIS (mix guarantees sjis failure via € / emoji)
SJIS_SINGLE = 'ｱｲｳｴｵｶﾞ'           # half-width katakana: single byte in Shift JIS, not latin-1


def rng(seed, *salt):
    return random.Random(f'{seed}/' + '/'.join(str(s) for s in salt))


def digits(r, n):
    return ''.join(r.choice('0123456789') for _ in range(n))


def alnum(r, n):
    if n == 0:
        return ''
    s = [r.choice(ALNUM) for _ in range(n)]
    if all(c.isdigit() for c in s):
        s[r.randrange(n)] = r.choice('ABC $%*+-./:')
    return ''.join(s)


def _valid_kanji_pair(hi, lo):
    code = (hi << 8) | lo
    if not (0x8140 <= code <= 0x9ffc or 0xe040 <= code <= 0xebbf):
        return False
    if not (0x40 <= lo <= 0xfc and lo != 0x7f):
        return False
    try:
        s = bytes((hi, lo)).decode('shift_jis')
    except UnicodeDecodeError:
        return False
    try:
        s.encode('iso-8859-1')
        return False
    except UnicodeEncodeError:
        pass
    return s.encode('shift_jis') == bytes((hi, lo)) and len(s) == 1


_KANJI_POOL = None


def kanji_pool():
    global _KANJI_POOL
    if _KANJI_POOL is None:
        pool = []
        for hi in list(range(0x81, 0xa0)) + list(range(0xe0, 0xec)):
            for lo in range(0x40, 0xfd):
                if _valid_kanji_pair(hi, lo):
                    pool.append(bytes((hi, lo)).decode('shift_jis'))
        _KANJI_POOL = pool
    return _KANJI_POOL


def kanji(r, n):
    pool = kanji_pool()
    return ''.join(r.choice(pool) for _ in range(n))


_HANZI_POOL = None


def hanzi_pool():
    global _HANZI_POOL
    if _HANZI_POOL is None:
        pool = []
        for hi in list(range(0xa1, 0xab)) + list(range(0xb0, 0xf8)):
            for lo in range(0xa1, 0xff):
                try:
                    s = bytes((hi, lo)).decode('gb2312')
                except UnicodeDecodeError:
                    continue
                if len(s) == 1 and s.encode('gb2312') == bytes((hi, lo)):
                    pool.append(s)
        _HANZI_POOL = pool
    return _HANZI_POOL


def hanzi(r, n):
    pool = hanzi_pool()
    return ''.join(r.choice(pool) for _ in range(n))


def latin1(r, n):
    """n characters, latin-1 encodable, not alphanumeric-only (forces byte mode)."""
    if n == 0:
        return ''
    s = [r.choice(ALNUM + LATIN1_EXTRA) for _ in range(n)]
    s[r.randrange(n)] = r.choice('abcxyzäöü')
    return ''.join(s)


def utf8_text(r, n):
    """n characters of which at least one is neither latin-1 nor Shift JIS."""
    if n == 0:
        return ''
    s = [r.choice('abc 123' + UTF8_ONLY) for _ in range(n)]
    s[r.randrange(n)] = r.choice('€😀')
    return ''.join(s)


def sjis_text(r, n):
    """n characters, Shift JIS encodable but not latin-1, not a pure kanji sequence (byte mode in Shift JIS)."""
    if n == 0:
        return ''
    s = [r.choice('abc12' + SJIS_SINGLE) for _ in range(n)]
    s[r.randrange(n)] = r.choice(SJIS_SINGLE)
    return ''.join(s)


def raw_bytes(r, n):
    """n bytes that do not form numeric / alphanumeric / kanji content."""
    if n == 0:
        return b''
    b = bytearray(r.randrange(256) for _ in range(n))
    b[r.randrange(n)] = r.choice((0x00, 0x0a, 0x61, 0x7f, 0xff))
    if n % 2 == 0:
        # make sure the first pair is not a kanji pair
        if 0x81 <= b[0] <= 0x9f or 0xe0 <= b[0] <= 0xeb:
            b[0] = 0x61
    return bytes(b)


def content_for_mode(r, mode, n):
    """Content whose automatically chosen mode is `mode` with n characters (hanzi: needs mode='hanzi')."""
    return {'numeric': digits, 'alphanumeric': alnum, 'byte': latin1, 'kanji': kanji, 'hanzi': hanzi}[mode](r, n)


def eci_boundary_calls(call, quick=True):
    """ECI sizing at the capacity boundaries: the bits reserved by the version search must be the bits written.
    (a) alias spellings of the encodings, single part, every byte length 1..60 (crosses 1-L .. 4-L, 1-M .. 5-M)
    (b) several byte parts with the same / different non-default encodings separated by a part of another mode: one ECI header per byte segment"""
    calls = []
    top = 60 if quick else 140
    for enc in ('latin1', 'L1', 'ISO-8859-1', 'iso8859_1', 'utf-8', 'UTF8', 'iso-8859-15', 'cp1252'):
        for n in range(1, top):
            if quick and enc not in ('latin1', 'UTF8') and n % 3:
                continue
            txt = 'a' * n
            calls.append(call('make', txt, encoding=enc, eci=True, error='L', boost_error=False))
            if enc in ('utf-8', 'UTF8', 'iso-8859-15'):
                # boosting switched on (the default): the 12 header bits count when the level is raised, at EVERY length
                calls.append(call('make', txt, encoding=enc, eci=True))
                calls.append(call('make', txt, encoding=enc, eci=True, error='L', micro=False))
            if n % 4 == 0:
                calls.append(call('make', txt, encoding=enc, eci=True, error='M'))
                calls.append(call('make', txt, encoding=enc, eci=True, version=(n + 12) // 14 + 1, error='L'))
    for k in range(0, top):
        calls.append(call('make', ['\xe4', 123, '\xf6' + 'a' * k], encoding='utf-8', eci=True, error='L', boost_error=False))
        if k % 3 == 0 or not quick:
            calls.append(call('make', ['\xe4', 'AB', '\xf6' + 'a' * k, 7, '\xfc'], encoding='utf-8', eci=True))
            calls.append(call('make', [('\xe4', None, 'utf-8'), 123, ('\xf6' + 'a' * k, None, 'iso-8859-15')], eci=True, error='L'))
            calls.append(call('make', ['\xe4', 123, '\xf6' + 'a' * k], encoding='utf-8', eci=True, version=(k + 30) // 16 + 1, error='L'))
    return calls


def multipart_boundary_calls(call, quick=True):
    """multi-part content of ONE mode whose first part ends on an incomplete group (so the parts stay separate segments, each with its
    own indicators), swept over every total length that crosses the capacities of versions 1-4 / M2-M4"""
    calls = []
    for first, ch, top in (('1', '2', 135), ('12', '7', 135), ('A', 'B', 120), ('4', '0', 60)):
        for k in range(1, top, 1 if not quick else 2):
            calls.append(call('make', [first, ch * k], error='L', micro=False, boost_error=False))
            if k % 6 == 1:
                calls.append(call('make', [first, ch * k]))
                calls.append(call('make', [first, ch * k, first], error='M', micro=False))
    # the same in Micro QR Codes (M1 / M3: the last data codeword has 4 bits)
    for first, ch in (('12', '3'), ('1', '2'), ('1234567890', '1'), ('A', 'B'), ('4', '0')):
        for k in range(1, 16):
            calls.append(call('make', [first, ch * k]))
            if k % 3 == 0:
                calls.append(call('make', [first, ch * k], error='M'))
    for k in (38, 39, 40, 41, 74, 75, 76, 77, 123, 124, 125, 126, 127):
        for ver in (1, 2, 3):
            calls.append(call('make', ['1', '2' * k], version=ver, error='L', boost_error=False))
    return calls


def same_capacity_sessions(call, r, quick=True):
    """Call sequences for ONE process: symbols of DIFFERENT (version, level) with the SAME number of data bits whose single segment has
    the SAME bit length (e.g. M4-L, 1-M and 2-H hold 128 bits; an M4 numeric segment of 107 bits and a version 1 byte segment of 107
    bits exist), created alternately a, b, a, b.  Whatever a call derives from (capacity, stream length) alone - terminator, padding,
    fitting version, boosted level - must not be remembered for the other symbol kind.  Returns a flat list of calls (order matters)."""
    from . import tables as T
    groups = {}
    for v in range(-3, 41):
        for e in T.levels_of(v):
            groups.setdefault(T.cap(v, e), []).append((v, e))
    calls = []
    modes = ('numeric', 'alphanumeric', 'byte', 'kanji')
    for capbits, members in sorted(groups.items()):
        if len(members) < 2 or (quick and capbits > 1100):
            continue
        for i in range(len(members)):
            for j in range(i + 1, len(members)):
                (v1, e1), (v2, e2) = members[i], members[j]
                # all (mode, n) of both members by segment length
                by_len = {}
                for (v, e, tag) in ((v1, e1, 0), (v2, e2, 1)):
                    for m in modes:
                        nmax = T.max_chars(v, e, m)
                        for n in range(1, nmax + 1):
                            by_len.setdefault(T.seg_bits(v, m, n), [None, None])[tag] = (m, n)
                common = sorted(L for L, (a, b) in by_len.items() if a and b)
                if not common:
                    continue
                # the stream lengths nearest to the capacity (terminator truncated / complete), and one in the middle
                # and the longest ones that leave room for the complete terminator of both kinds (4 / 3, 5, 7, 9 bits) and a pad codeword
                roomy = [L for L in common if capbits - L >= 9]
                picks = sorted(set(common[-6:] + roomy[-6:] + [common[len(common) // 2]]))
                for L in picks if not quick else sorted(set(common[-2:] + roomy[-3:] + [common[len(common) // 2]])):
                    (m1, n1), (m2, n2) = by_len[L]
                    c1, c2 = content_for_mode(r, m1, n1), content_for_mode(r, m2, n2)
                    a = call('make', c1, version=T.version_name(v1), boost_error=False, **({'error': e1} if e1 != '-' else {}))
                    b = call('make', c2, version=T.version_name(v2), boost_error=False, **({'error': e2} if e2 != '-' else {}))
                    calls += [a, b, a, b]
                    # automatic version / boosting allowed: the same two contents with only the level requested
                    a2 = call('make', c1, micro=v1 < 1, **({'error': e1} if e1 != '-' else {}))
                    b2 = call('make', c2, micro=v2 < 1, **({'error': e2} if e2 != '-' else {}))
                    calls += [a2, b2, a2]
    return calls


def option_combination_calls(call):
    """Pairs and triples of options that are each ACTIVE (a requested mask, a requested larger version, ECI with a header, a requested mode,
    boosting that really raises the level / boosting switched off, micro on / off, a requested level) on short contents: what one option
    decides must still hold when another one changes the course of the encoding (format information written for the BOOSTED level under
    a requested mask, the ECI header counted when boosting, ...)."""
    import itertools
    feats = {'mask3': {'mask': 3}, 'mask0': {'mask': 0}, 'version5': {'version': 5}, 'versionM4': {'version': 'M4'},
             'eci': {'eci': True, 'encoding': 'utf-8'}, 'mode_byte': {'mode': 'byte'}, 'noboost': {'boost_error': False},
             'level_L': {'error': 'L'}, 'level_M': {'error': 'M'}, 'micro_false': {'micro': False}, 'micro_true': {'micro': True},
             'encoding': {'encoding': 'utf-8'}}
    excl = [{'mask3', 'mask0'}, {'version5', 'versionM4'}, {'versionM4', 'eci'}, {'versionM4', 'micro_false'}, {'micro_true', 'eci'},
            {'micro_true', 'version5'}, {'micro_true', 'micro_false'}, {'level_L', 'level_M'}, {'eci', 'encoding'}]
    calls = []
    names = sorted(feats)
    for k in (2, 3):
        for combo in itertools.combinations(names, k):
            if any(x <= set(combo) for x in excl):
                continue
            kw = {}
            for f in combo:
                kw.update(feats[f])
            micro = 'versionM4' in combo or 'micro_true' in combo
            for content in (('12345', 'AB12') if micro else ('12345', 'Gr\xfc\xdfe €', 'HELLO WORLD')):
                if k == 3 and content == 'HELLO WORLD':
                    continue
                calls.append(call('make', content, **kw))
    return calls
