CONSTANTS
  MaxFlags = 2
SPECIFICATION Spec
CHECK_DEADLOCK FALSE
INVARIANT MicroVersionUsable
INVARIANT NoMicroByDefault
INVARIANT DashIsNone
INVARIANT KeywordsMatchFactory
INVARIANT Export
