"""C14 (factory functions): Args.tla vectors -> calls -> Trace_Args; accepted results also judged by the C01-C03 clauses."""
import json
from . import common, symobs, engine, gen
from .symobs import call

VERSION = {'none': None, 'int': 5, 'str_int': '5', 'micro_upper': 'M4', 'micro_lower': 'm4', 'zero': 0, 'neg': -1, 'big': 41,
           'str_bad': 'm5', 'str_junk': 'x', 'str_big': '41', 'str_zero': '0', 'str_neg': '-1', 'str_neg3': '-3'}
VERSION_CANON = {'str_int': 5, 'micro_lower': 'M4'}
ERROR = {'none': None, 'M': 'M', 'm': 'm', 'H': 'H', 'h': 'h', 'bad': 'x', 'empty': ''}
MODE = {'none': None, 'canon': 'byte', 'upper': 'BYTE', 'mixed': 'Byte', 'bad': 'foo'}
MASK = {'none': None, 'int': 2, 'str_int': '2', 'four': 4, 'eight': 8, 'neg': -1, 'str_bad': 'x', 'zero': 0, 'str_zero': '0', 'str_seven': '7'}
ENC = {'none': None, 'utf8': 'utf-8', 'utf8_upper': 'UTF-8', 'latin1': 'iso-8859-1', 'unknown': 'no-such-codec'}
CONTENT = {'digits': '12345', 'alnum': 'AB C1', 'text': 'Hello', 'bytes': b'\x00\xffab', 'int': 12345, 'empty': '', 'long': 'x' * 40}


def concretise(a, canonical=False):
    kw = {}
    v = VERSION[a['version']]
    if canonical and a['version'] in VERSION_CANON:
        v = VERSION_CANON[a['version']]
    if v is not None:
        kw['version'] = v
    e = ERROR[a['error']]
    if e is not None:
        kw['error'] = e.upper() if canonical else e
    m = MODE[a['mode']]
    if m is not None:
        kw['mode'] = m.lower() if canonical else m
    k = MASK[a['mask']]
    if k is not None:
        kw['mask'] = int(k) if canonical and a['mask'] in ('str_int', 'str_zero', 'str_seven') else k
    if a['micro'] != 'none':
        kw['micro'] = a['micro'] == 'yes'
    if a['eci']:
        kw['eci'] = True
    if not a['boost']:
        kw['boost_error'] = False
    enc = ENC[a['encoding']]
    if enc is not None:
        kw['encoding'] = enc.lower() if canonical else enc
    if a.get('count', 'none') != 'none':
        kw['symbol_count'] = {'two': 2, 'sixteen': 16, 'zero': 0, 'seventeen': 17}[a['count']]
    return call(a['api'], CONTENT[a['content']], **kw)


def _observe(vec):
    a = vec['args']
    c = concretise(a)
    outcome, res, seq = symobs.execute(c, time_limit=60)
    mat = res['matrix'] if res else ([s['matrix'] for s in seq] if seq else [])
    o = {'_call': c, 'a': a, 'outcome': {'status': outcome['status'], 'exc': outcome.get('exc', ''), 'mro': outcome.get('mro', []),
                                        'msg': outcome.get('msg', '')},
         'matrix': mat, 'canon': {'status': 'none', 'matrix': []}, '_res': res, '_seq': seq}
    # the canonical spelling of the same request, called the other way round: all parameters positionally in the documented order, or all
    # by keyword with the omitted ones given as their documented default
    cc = concretise(a, canonical=True)
    if all(k in symobs.SIGNATURES[cc['api']] for k in cc['kw']):
        cc['conv'] = ('positional', 'explicit')[len(json.dumps(a, sort_keys=True)) % 2]
    if cc != c and outcome['status'] == 'ok':
        o2, r2, s2 = symobs.execute(cc, time_limit=60)
        o['canon'] = {'status': o2['status'], 'matrix': r2['matrix'] if r2 else ([s['matrix'] for s in s2] if s2 else [])}
        o['_canon_call'] = cc
    return o


def run_factory_part(rep, tier):
    cfg = 'Args_quick.cfg' if tier == 'quick' else 'Args_thorough.cfg'
    out, st = common.run_tlc('Args', cfg=cfg, workers=8, timeout=1500, xmx='8g', coverage=True)
    rep.add_design('Args', cfg, out, st, 'argument value classes x allowed outcomes; invariants ExclusionsRefused, NeverOtherException, SpellingsAccepted')
    vecs = common.parse_vectors(out)
    rep.notes['arg_vectors_exported_by_tlc'] = len(vecs)
    import multiprocessing as mp
    with mp.get_context('fork').Pool(common.NCPU) as pool:
        obs = pool.map(_observe, vecs, chunksize=max(1, len(vecs) // 128))
    rep.evaluations += len(obs)
    verdicts, st = common.validate_observations(rep.pid, 'Trace_Args', obs, tag='args')
    rep.add_trace_stats(st, len(obs))
    accepted = []
    for o in obs:
        v = verdicts[o['tid']]
        fails = sorted(c for (p, c) in v['fails'])
        f = v['facts']
        rep.keys.add(('A', json.dumps(o['a'], sort_keys=True)))
        rep.sample({'call': engine.brief_call(o['_call']), 'spec_allows': f['allowed'], 'because': f['why'], 'observed': f['seen'], 'exc': f['exc']})
        if fails:
            rep.violation({'kind': 'args', 'module': 'props_args', 'vector': {'args': o['a']}, 'call': o['_call'], 'failing_clauses': fails,
                           'allowed': f['allowed'], 'observed': o['outcome']},
                          f"{engine.brief_call(o['_call'])}: spec allows {f['allowed']} {f['why']}, observed {f['seen']} {o['outcome']['exc']}: {o['outcome']['msg'][:80]}; fails {fails}")
        if o['outcome']['status'] == 'ok':
            accepted.append(o)
    # accepted results must be symbols in the sense of C01-C03
    sobs = []
    for o in accepted:
        c = o['_call']
        if o['_res'] is not None:
            so = {'_call': c, 'props': ['C01', 'C02', 'C03'], 'outcome': {'status': 'ok'},
                  'exp': symobs.expectation(symobs.dec_content(c['content']), c['kw']), 'res': o['_res'], '_cost': len(o['matrix']) ** 2}
            sobs.append(so)
        else:
            for sres in (o['_seq'] or []):      # symbols of a sequence: geometry and Reed-Solomon clauses (the payload is C08's business)
                sobs.append({'_call': c, 'props': ['C02', 'C03'], 'outcome': {'status': 'ok'},
                             'exp': symobs.expectation(symobs.dec_content(c['content']), c['kw']), 'res': sres, '_cost': len(sres['matrix']) ** 2})
    engine.judge_symbols(rep, sobs, {'C01', 'C02', 'C03'}, None, None)
    return obs


def replay(pid, d):
    if d.get('kind') == 'content':
        return replay_content(pid, d)
    common.use_repo()
    o = _observe(d['vector'])
    print('call    :', engine.brief_call(o['_call']))
    print('outcome :', o['outcome'])
    verdicts, _ = common.validate_observations(pid + '_replay', 'Trace_Args', [o], shards=1, tag='args')
    v = verdicts[o['tid']]
    print('verdict :', v)
    if not v['fails']:
        print('the observation conforms to the specification')
        return 0
    print(f'VIOLATION property={pid} replay=(this file)')
    return 1


def content_robustness_part(rep, tier):
    """content is an argument too: every content (str / bytes / int, odd shapes) x requested mode is either encoded (and then a symbol
    in the sense of C01-C03) or refused with a ValueError - never another exception"""
    r = gen.rng(common.seed(), 'C14content')
    bases = ['123', 'AB', 'ab', '\u70b9', '\u70b9\u8317', gen.kanji(r, 3), gen.hanzi(r, 2), '\xe4', '\u20ac', '\U0001f600', '\uff71', ' ', '0', '$%*+-./:']
    tails = ['', '\n', '\r', '\r\n', '\x00', '\x0b', '\x1c', '\x85', '\u2028', '\n\n', ' ']
    calls = []
    for b in bases:
        for t in tails:
            for mode in (None, 'numeric', 'alphanumeric', 'byte', 'kanji', 'hanzi'):
                kw = {} if mode is None else {'mode': mode}
                calls.append(call('make', b + t, **kw))
                if mode in (None, 'kanji') and t in ('', '\n', '\x00'):
                    for enc in ('shift_jis', 'utf-8', 'gb2312'):
                        try:
                            calls.append(call('make', (b + t).encode(enc), **kw))
                        except UnicodeError:
                            pass
                    calls.append(call('make_sequence', b + t, symbol_count=1, **kw))
                    calls.append(call('make_qr', b + t, **kw))
    for c in (b'\x81', b'\x81\x40\x81', b'\xeb\xbf\n', b'\x93\x5f\n', b'\x93\x5f\r', b'\x93\x5f\x93', b'\xb0\xa1\n', 0, 7, 10 ** 30):
        for mode in (None, 'numeric', 'byte', 'kanji', 'hanzi'):
            calls.append(call('make', c, **({} if mode is None else {'mode': mode})))
    # requested mode hanzi on byte pairs: the rows A1-AA and B0-FA exist, AB-AF and everything else is refused
    for hi in range(0xa0, 0x100, 1 if tier == 'thorough' else 1):
        for lo in (0xa1, 0xc0, 0xfe):
            calls.append(call('make', bytes([hi, lo]), mode='hanzi'))
    # every requested Micro version (any spelling) x content of every class, with and without mode: encoded or refused with a ValueError
    for ver in ('M1', 'm1', 'M2', 'm2', 'M3', 'M4'):
        for c in ('12345', 'ABC', 'abc', '', -1, 0, '\u70b9\u8317', b'\x00', 'Hello', '1' * 40):
            calls.append(call('make', c, version=ver))
            calls.append(call('make_micro', c, version=ver))
            if ver in ('M1', 'M2'):
                calls.append(call('make', c, version=ver, error='L'))
                calls.append(call('make', c, version=ver, micro=True, boost_error=False))
    # sequences of multi-mode content are refused, sequences that would need more than 16 symbols overflow - both are ValueErrors
    calls += [call('make_sequence', ['12', 'ab'], symbol_count=2), call('make_sequence', ['12', 'ab'], version=1), call('make_sequence', ['12', '34'], symbol_count=2),
              call('make_sequence', 'x' * 400, version=1), call('make_sequence', '7' * 800, version=1, error='H'), call('make_sequence', 'x' * 20, symbol_count=17),
              call('make_sequence', 'x' * 20, symbol_count=0), call('make_sequence', 'x' * 20), call('make_sequence', 'x' * 20, version='M3')]
    # spellings of the encoding argument (aliases, case) with and without ECI at every length: honoured means the symbol still decodes
    calls += gen.eci_boundary_calls(call, tier == 'quick')
    obs = symobs.observe_many([c for c in calls if c['api'] != 'make_sequence'], props=['C01', 'C02', 'C03'])
    for c in calls:
        if c['api'] == 'make_sequence':             # one observation per returned symbol, or one refusal
            so = symobs.observe_sequence_symbols(c, props=['C02', 'C03'])
            obs += so if so else [symobs.observe(c)]
    rep.evaluations += len(calls)
    n_ref = 0
    for o in obs:
        if 'res' in o or o['outcome']['status'] == 'ok':
            continue
        n_ref += 1
        if 'ValueError' not in o['outcome'].get('mro', []):
            rep.violation({'kind': 'content', 'module': 'props_args', 'call': o['_call'], 'failing_clauses': ['refusal_is_not_a_ValueError'], 'observed': o['outcome']},
                          f"{engine.brief_call(o['_call'])} raised {o['outcome'].get('exc')}: {o['outcome'].get('msg', '')[:80]}")
    rep.notes['content_robustness'] = {'calls': len(calls), 'refused_with_ValueError_or_worse': n_ref}
    engine.judge_symbols(rep, [o for o in obs if 'res' in o], {'C01', 'C02', 'C03'}, lambda o, v: ('CR', engine.brief_call(o['_call'])[:40]), None)


def replay_content(pid, d):
    common.use_repo()
    o = symobs.observe(d['call'], props=['C01', 'C02', 'C03'])
    print('call    :', engine.brief_call(d['call']))
    print('outcome :', o['outcome'])
    if o['outcome']['status'] != 'ok' and 'ValueError' not in o['outcome'].get('mro', []):
        print(f'VIOLATION property={pid} replay=(this file)')
        return 1
    return 0


def run_c14(rep, tier):
    run_factory_part(rep, tier)
    content_robustness_part(rep, tier)
    for modname in ('props_refusals',):
        try:
            mod = __import__('harness.' + modname, fromlist=['run_part'])
        except ModuleNotFoundError as e:
            if modname in str(e):
                continue
            raise
        mod.run_part(rep, tier)
    rep.rule = ('spec -> code: TLC enumerates from Args.tla all combinations of documented argument value classes (canonical, alternative '
                'spelling, boundary, malformed) in which at most 2 (thorough: 3) arguments differ from the default, with the set of '
                'allowed outcomes; each is executed (60 s limit per call); TLC validates outcome class, equality with the canonical '
                'spelling, and the accepted symbols against the C01-C03 clauses; distinct non-trivial = distinct argument class vectors')


REGISTRY = {'C14': run_c14}
