"""Projection of serialised documents to observation records (container level only: framing, CRC, inflate, tokenising)."""
import re
import struct
import zlib


# ------------------------------------------------------------------ colour arguments
def colour_arg(c):
    if c is None:
        return {'kind': 'none'}
    if isinstance(c, str):
        s = c.strip()
        if s.startswith('#'):
            return {'kind': 'hex', 'digits': [int(ch, 16) for ch in s[1:]]}
        if len(s) in (3, 4, 6, 8) and all(ch in '0123456789abcdefABCDEF' for ch in s):
            # hexadecimal digits without '#': not a documented notation (a ValueError is acceptable, see may_refuse), but no colour name
            # consists of hexadecimal digits only, so if it is accepted it can only mean this colour
            return {'kind': 'hex', 'digits': [int(ch, 16) for ch in s]}
        return {'kind': 'name', 'name': s.lower()}
    if isinstance(c, tuple):
        if len(c) == 3 and any(isinstance(x, float) for x in c):
            # EPS / PDF: "this method accepts floats as R, G, B values" - a float component is an intensity 0.0 .. 1.0, an int one c / 255
            return {'kind': 'unit', 'mb': [int(round(x * 255 * 1000)) if isinstance(x, float) else int(x) * 1000 for x in c]}
        if len(c) == 4 and isinstance(c[3], float):
            return {'kind': 'tuplef', 'v': [int(x) for x in c[:3]], 'alpha_pm': int(round(c[3] * 1000))}
        return {'kind': 'tuple', 'v': [int(x) for x in c]}
    raise TypeError(c)


# ------------------------------------------------------------------ PNG
def png(data):
    d = {'sig_ok': data[:8] == b'\x89PNG\r\n\x1a\n', 'crc_ok': True, 'order_ok': True, 'width': 0, 'height': 0, 'depth': 0, 'ctype': -1,
         'compression': -1, 'filter': -1, 'interlace': -1, 'plte': [], 'trns': [], 'trns_grey': -1, 'phys': [], 'lines': [],
         'leftover': 0, 'trailing': 0, 'chunks': []}
    pos = 8
    idat = b''
    seen_iend = False
    while pos + 8 <= len(data):
        (ln,) = struct.unpack('>I', data[pos:pos + 4])
        name = data[pos + 4:pos + 8]
        body = data[pos + 8:pos + 8 + ln]
        crc = data[pos + 8 + ln:pos + 12 + ln]
        if len(body) != ln or len(crc) != 4 or struct.unpack('>I', crc)[0] != (zlib.crc32(name + body) & 0xffffffff):
            d['crc_ok'] = False
        d['chunks'].append(name.decode('latin-1'))
        pos += 12 + ln
        if name == b'IHDR' and ln == 13:
            (d['width'], d['height'], d['depth'], d['ctype'], d['compression'], d['filter'], d['interlace']) = struct.unpack('>2I5B', body)
        elif name == b'PLTE':
            d['plte'] = [list(body[i:i + 3]) for i in range(0, len(body) - len(body) % 3, 3)]
            if len(body) % 3:
                d['order_ok'] = False
        elif name == b'tRNS':
            if d['ctype'] == 0 and ln == 2:
                d['trns_grey'] = struct.unpack('>H', body)[0]
            else:
                d['trns'] = list(body)
        elif name == b'pHYs' and ln == 9:
            d['phys'] = list(struct.unpack('>LLB', body))
        elif name == b'IDAT':
            idat += body
        elif name == b'IEND':
            seen_iend = True
            break
    d['trailing'] = len(data) - pos
    ch = d['chunks']
    if not ch or ch[0] != 'IHDR' or not seen_iend or ch[-1] != 'IEND' or 'IDAT' not in ch:
        d['order_ok'] = False
    else:
        i_idat = ch.index('IDAT')
        for nm in ('PLTE', 'tRNS', 'pHYs'):
            if nm in ch and ch.index(nm) > i_idat:
                d['order_ok'] = False
        if 'tRNS' in ch and 'PLTE' in ch and ch.index('tRNS') < ch.index('PLTE'):
            d['order_ok'] = False
        if d['ctype'] == 3 and 'PLTE' not in ch:
            d['order_ok'] = False
    try:
        raw = zlib.decompress(idat)
    except zlib.error:
        raw = b''
        d['crc_ok'] = False
    channels = {0: 1, 2: 3, 3: 1, 4: 2, 6: 4}.get(d['ctype'], 1)
    stride = (d['width'] * d['depth'] * channels + 7) // 8 if d['depth'] else 0
    if stride:
        nrows = len(raw) // (stride + 1)
        d['leftover'] = len(raw) - nrows * (stride + 1)
        for r in range(nrows):
            row = raw[r * (stride + 1):(r + 1) * (stride + 1)]
            d['lines'].append({'ft': row[0], 'data': list(row[1:])})
    return d


# ------------------------------------------------------------------ Netpbm
def _netpbm_tokens(data, count):
    """Reads `count` whitespace separated header tokens (comments skipped); returns tokens and the offset of the raster."""
    toks = []
    pos = 0
    n = len(data)
    while len(toks) < count and pos < n:
        ch = data[pos:pos + 1]
        if ch.isspace():
            pos += 1
        elif ch == b'#':
            while pos < n and data[pos:pos + 1] != b'\n':
                pos += 1
        else:
            st = pos
            while pos < n and not data[pos:pos + 1].isspace() and data[pos:pos + 1] != b'#':
                pos += 1
            toks.append(data[st:pos])
    return toks, pos + 1          # exactly one whitespace byte follows the last header token


def pbm(data):
    toks, off = _netpbm_tokens(data, 3)
    d = {'magic': toks[0].decode('latin-1') if toks else '', 'header_ok': len(toks) == 3, 'width': 0, 'height': 0, 'data': [], 'cells': []}
    try:
        d['width'], d['height'] = int(toks[1]), int(toks[2])
    except (ValueError, IndexError):
        d['header_ok'] = False
        return d
    if d['magic'] == 'P4':
        d['data'] = list(data[off:])
    elif d['magic'] == 'P1':
        rows = [ln for ln in data[off - 1:].decode('ascii', 'replace').split('\n') if ln.strip() != '']
        try:
            d['cells'] = [[int(ch) for ch in ln if not ch.isspace()] for ln in rows]
        except ValueError:
            d['header_ok'] = False
    return d


def pam(data):
    d = {'header_ok': False, 'width': 0, 'height': 0, 'depth': 0, 'maxval': 0, 'tupltype': '', 'data': []}
    end = data.find(b'ENDHDR\n')
    if not data.startswith(b'P7\n') or end < 0:
        return d
    try:
        for ln in data[3:end].decode('ascii').split('\n'):
            ln = ln.strip()
            if not ln or ln.startswith('#'):
                continue
            k, _, v = ln.partition(' ')
            if k == 'WIDTH':
                d['width'] = int(v)
            elif k == 'HEIGHT':
                d['height'] = int(v)
            elif k == 'DEPTH':
                d['depth'] = int(v)
            elif k == 'MAXVAL':
                d['maxval'] = int(v)
            elif k == 'TUPLTYPE':
                d['tupltype'] = v.strip()
            else:
                return d
    except (ValueError, UnicodeDecodeError):
        return d
    d['header_ok'] = True
    d['data'] = list(data[end + 7:])
    return d


def ppm(data):
    toks, off = _netpbm_tokens(data, 4)
    d = {'header_ok': len(toks) == 4 and toks[0] == b'P6', 'width': 0, 'height': 0, 'maxval': 0, 'data': []}
    try:
        d['width'], d['height'], d['maxval'] = int(toks[1]), int(toks[2]), int(toks[3])
    except (ValueError, IndexError):
        d['header_ok'] = False
        return d
    d['data'] = list(data[off:])
    return d


# ------------------------------------------------------------------ XBM / XPM (C syntax)
def xbm(text):
    d = {'syntax_ok': False, 'width': 0, 'height': 0, 'bytes': []}
    m = re.match(r'\s*#define\s+(\w+)_width\s+(\d+)\s*\n\s*#define\s+(\w+)_height\s+(\d+)\s*\n\s*static\s+(?:unsigned\s+)?char\s+(\w+)_bits\s*\[\s*\]\s*=\s*\{(.*)\}\s*;\s*$',
                 text, re.S)
    if not m:
        return d
    d['width'], d['height'] = int(m.group(2)), int(m.group(4))
    body = m.group(6)
    items = [t.strip() for t in body.split(',')]
    if items and items[-1] == '':
        items = items[:-1]
    try:
        d['bytes'] = [int(t, 16) for t in items]
    except ValueError:
        return d
    d['syntax_ok'] = m.group(1) == m.group(3) == m.group(5) and all(re.fullmatch(r'0x[0-9a-fA-F]{2}', t) for t in items)
    return d


def xpm(text):
    d = {'syntax_ok': False, 'width': 0, 'height': 0, 'ncolors': 0, 'cpp': 0, 'colors': [], 'rows': []}
    m = re.match(r'\s*/\* XPM \*/\s*static\s+char\s*\*\s*(\w+)\s*\[\s*\]\s*=\s*\{(.*)\}\s*;\s*$', text, re.S)
    if not m:
        return d
    strings = re.findall(r'"((?:[^"\\]|\\.)*)"', m.group(2))
    rest = re.sub(r'"((?:[^"\\]|\\.)*)"', 'S', m.group(2))
    if not strings or not re.fullmatch(r'\s*S(\s*,\s*S)*\s*,?\s*', rest):
        return d
    try:
        d['width'], d['height'], d['ncolors'], d['cpp'] = [int(x) for x in strings[0].split()]
    except ValueError:
        return d
    ok = True
    for s in strings[1:1 + d['ncolors']]:
        mm = re.fullmatch(r'(.)\s+c\s+(\S+)', s)
        if not mm:
            ok = False
            continue
        val = mm.group(2)
        if val.lower() == 'none':
            rgb = []
        elif re.fullmatch(r'#[0-9a-fA-F]{6}', val):
            rgb = [int(val[i:i + 2], 16) for i in (1, 3, 5)]
        else:
            ok = False
            rgb = []
        d['colors'].append({'ch': ord(mm.group(1)), 'rgb': rgb})
    d['rows'] = [[ord(ch) for ch in s] for s in strings[1 + d['ncolors']:]]
    d['syntax_ok'] = ok and len(strings) >= 1 + d['ncolors']
    return d


# ------------------------------------------------------------------ text grids
def txt(text, dark='1', light='0'):
    """cells of the text grid; the writer uses str(dark) / str(light) as the cell of a module, so a cell may be wider than one character"""
    dark, light = str(dark), str(light)
    lines = text.split('\n')
    ok = lines[-1] == '' and len(dark) == len(light) and len(dark) >= 1
    w = max(1, len(dark))
    dark_code = ord(dark) if len(dark) == 1 else 1000001
    light_code = ord(light) if len(light) == 1 else 1000000
    rows = []
    for ln in lines[:-1]:
        if len(ln) % w:
            ok = False
        cells = [ln[i:i + w] for i in range(0, len(ln), w)]
        rows.append([dark_code if c == dark else light_code if c == light else (ord(c) if w == 1 else -2) for c in cells])
    return {'syntax_ok': ok, 'rows': rows, 'dark_code': dark_code, 'light_code': light_code}


_ANSI_RUN = re.compile(r'\x1b\[(\d+)m((?:  )+)\x1b\[0m')


def ansi(text):
    lines = text.split('\n')
    ok = lines[-1] == ''
    rows = []
    for ln in lines[:-1]:
        pos = 0
        row = []
        for m in _ANSI_RUN.finditer(ln):
            if m.start() != pos:
                ok = False
            row += [int(m.group(1))] * (len(m.group(2)) // 2)
            pos = m.end()
        if pos != len(ln):
            ok = False
        rows.append(row)
    return {'syntax_ok': ok, 'rows': rows, 'dark_code': -1, 'light_code': -1}


_BLOCKS = {' ': (0, 0), '▀': (1, 0), '▄': (0, 1), '█': (1, 1)}   # glyph -> (ink in top half, ink in bottom half)


def compact(text):
    lines = text.split('\n')
    ok = lines[-1] == ''
    rows = []
    for ln in lines[:-1]:
        row = []
        for ch in ln:
            if ch not in _BLOCKS:
                ok = False
                row.append([0, 0])
            else:
                row.append(list(_BLOCKS[ch]))
        rows.append(row)
    return {'syntax_ok': ok, 'rows': rows}


# ================================================================== vector documents (C10)
def um(x):
    """number (str or float) -> integer micro-units"""
    return int(round(float(x) * 1000000))


_SVG_NUM = r'[-+]?(?:\d+\.?\d*|\.\d+)(?:[eE][-+]?\d+)?'
_SVG_TOKEN = re.compile(r'([MmhvzZlL])|(' + _SVG_NUM + r')|([\s,]+)|(.)')


def svg_path_ops(dstr):
    """path data -> ops in micro-units; (ops, ok)"""
    ops = []
    ok = True
    toks = []
    for m in _SVG_TOKEN.finditer(dstr):
        if m.group(1):
            toks.append(m.group(1))
        elif m.group(2):
            toks.append(float(m.group(2)))
        elif m.group(4):
            ok = False
    i = 0
    cmd = None
    arity = {'M': 2, 'm': 2, 'h': 1, 'v': 1, 'H': 1, 'V': 1, 'z': 0, 'Z': 0, 'l': 2, 'L': 2}
    while i < len(toks):
        t = toks[i]
        if isinstance(t, str):
            cmd = t
            i += 1
            if arity[cmd] == 0:
                ops.append({'op': 'z', 'a': 0, 'b': 0})
                continue
        if cmd is None:
            return ops, False
        n = arity[cmd]
        if n == 0:
            if i < len(toks) and not isinstance(toks[i], str):
                return ops, False
            continue
        args = toks[i:i + n]
        if len(args) < n or any(isinstance(a, str) for a in args):
            return ops, False
        i += n
        a = um(args[0])
        b = um(args[1]) if n == 2 else 0
        ops.append({'op': cmd, 'a': a, 'b': b})
        if cmd == 'M':
            cmd = 'L'      # implicit lineto after moveto
        elif cmd == 'm':
            cmd = 'l'
    return ops, ok


_CSS_RGBA = re.compile(r'rgba\(\s*(\d+)\s*,\s*(\d+)\s*,\s*(\d+)\s*,\s*([0-9.]+)\s*\)')
SVG_NAMES = {'red': (255, 0, 0), 'tan': (210, 180, 140)}


def svg_colour(value, opacity):
    """SVG paint + opacity attribute -> [r, g, b, a] (a 0..255) or [] if unparsable / none"""
    if value is None:
        return []
    v = value.strip()
    a = 255
    m = _CSS_RGBA.fullmatch(v)
    if m:
        rgb = [int(m.group(i)) for i in (1, 2, 3)]
        a = int(round(float(m.group(4)) * 255))
    elif re.fullmatch(r'#[0-9a-fA-F]{3}', v):
        rgb = [int(ch * 2, 16) for ch in v[1:]]
    elif re.fullmatch(r'#[0-9a-fA-F]{6}', v):
        rgb = [int(v[i:i + 2], 16) for i in (1, 3, 5)]
    elif v.lower() in SVG_NAMES:
        rgb = list(SVG_NAMES[v.lower()])
    else:
        return []
    if opacity is not None:
        a = int(round(float(opacity) * 255))
    return rgb + [a]


def svg(data):
    """data: bytes of the SVG document"""
    import xml.parsers.expat
    d = {'wellformed': True, 'root_ok': False, 'width': -1, 'height': -1, 'unit': '', 'viewbox': [], 'paths': [], 'xmldecl': False,
         'svgns': False, 'nl': data.endswith(b'\n'), 'title': [], 'desc': [], 'version': '', 'has_title': False, 'has_desc': False,
         'encoding_decl': ''}
    state = {'depth': 0, 'group_scale': [], 'text_target': None}

    def scale_of(attrs):
        t = attrs.get('transform')
        if t is None:
            return None
        m = re.fullmatch(r'scale\((' + _SVG_NUM + r')\)', t.strip())
        return um(m.group(1)) if m else -1

    def start(name, attrs):
        state['depth'] += 1
        local = name.split('}')[-1] if '}' in name else name
        if state['depth'] == 1:
            d['root_ok'] = local == 'svg'
            d['svgns'] = name.startswith('http://www.w3.org/2000/svg}')
            d['version'] = attrs.get('version', '')
            for key in ('width', 'height'):
                if key in attrs:
                    m = re.fullmatch(r'(' + _SVG_NUM + r')([a-z%]*)', attrs[key])
                    if m:
                        d[key] = um(m.group(1))
                        d['unit'] = m.group(2)
                    else:
                        d[key] = -2
            if 'viewBox' in attrs:
                try:
                    d['viewbox'] = [um(x) for x in attrs['viewBox'].split()]
                except ValueError:
                    d['viewbox'] = [-1]
        elif local == 'g':
            state['group_scale'].append(scale_of(attrs))
        elif local == 'path':
            ops, ok = svg_path_ops(attrs.get('d', ''))
            own = scale_of(attrs)
            inherited = [s for s in state['group_scale'] if s is not None]
            transform = own if own is not None else (inherited[-1] if inherited else 1000000)
            if own is not None and inherited:
                transform = -1          # nested scales are not expected
            has_fill = 'fill' in attrs
            p = {'kind': 'fill' if has_fill else 'stroke', 'ops': ops if ok else [{'op': '?', 'a': 0, 'b': 0}], 'transform': transform,
                 'rgba': svg_colour(attrs.get('fill') if has_fill else attrs.get('stroke'),
                                    attrs.get('fill-opacity') if has_fill else attrs.get('stroke-opacity')),
                 'has_paint': ('fill' in attrs) or ('stroke' in attrs), 'cls': attrs.get('class', '')}
            if not p['rgba']:
                p['rgba'] = [-1, -1, -1, -1] if p['has_paint'] else [0, 0, 0, 0]   # no stroke attribute: nothing is painted
            d['paths'].append(p)
        elif local in ('title', 'desc'):
            state['text_target'] = local
            d['has_' + local] = True

    def end(name):
        local = name.split('}')[-1] if '}' in name else name
        if local == 'g' and state['group_scale']:
            state['group_scale'].pop()
        if local in ('title', 'desc'):
            state['text_target'] = None
        state['depth'] -= 1

    def chars(txt):
        if state['text_target']:
            d[state['text_target']] += [ord(ch) for ch in txt]

    def xmldecl(version, encoding, standalone):
        d['xmldecl'] = True
        d['encoding_decl'] = encoding or ''

    p = xml.parsers.expat.ParserCreate(namespace_separator='}')
    p.StartElementHandler = start
    p.EndElementHandler = end
    p.CharacterDataHandler = chars
    p.XmlDeclHandler = xmldecl
    try:
        p.Parse(data, True)
    except xml.parsers.expat.ExpatError as e:
        d['wellformed'] = False
        d['error'] = str(e)
    if not d['has_title']:
        d['title'] = [-1]
    if not d['has_desc']:
        d['desc'] = [-1]
    return d


def eps(text):
    d = {'dsc_ok': False, 'bbox': [], 'scale': 1000000, 'ops': [], 'stroke_rgb': [], 'bg_rgb': [], 'bg_whole_page': False, 'eof_ok': False,
         'stroked': False, 'unknown': 0}
    lines = text.split('\n')
    d['dsc_ok'] = lines[0].startswith('%!PS-Adobe-3.0 EPSF-3.0')
    d['eof_ok'] = text.rstrip('\n').endswith('%%EOF')
    body = []
    for ln in lines:
        if ln.startswith('%%BoundingBox:'):
            try:
                d['bbox'] = [um(x) for x in ln.split(':', 1)[1].split()]
            except ValueError:
                d['bbox'] = [-1]
        elif ln.startswith('%'):
            continue
        else:
            body.append(ln)
    toks = ' '.join(body).split()
    stack = []
    defs = {}
    i = 0
    pending_rgb = None
    seen_path = False
    while i < len(toks):
        t = toks[i]
        i += 1
        if re.fullmatch(_SVG_NUM, t):
            stack.append(t)
            continue
        if t.startswith('/'):           # /m { rmoveto } bind def
            j = i
            if j < len(toks) and toks[j] == '{':
                k = toks.index('}', j)
                body_ = toks[j + 1:k]
                rest = toks[k + 1:k + 3]
                if rest == ['bind', 'def'] and len(body_) == 1:
                    defs[t[1:]] = body_[0]
                    i = k + 3
                    continue
            d['unknown'] += 1
            continue
        op = defs.get(t, t)
        try:
            if op == 'setrgbcolor':
                b_, g_, r_ = stack.pop(), stack.pop(), stack.pop()
                pending_rgb = [int(round(float(x) * 255 * 1000)) for x in (r_, g_, b_)]
                if seen_path or d['bg_rgb'] or (i < len(toks) and toks[i] != 'clippath'):
                    d['stroke_rgb'] = pending_rgb
            elif op == 'clippath':
                if i < len(toks) and toks[i] == 'fill':
                    i += 1
                    d['bg_rgb'] = pending_rgb or [0, 0, 0]
                    d['bg_whole_page'] = d['scale'] == 1000000 and not seen_path
                    d['stroke_rgb'] = []      # colour after a background fill must be set again (default black otherwise = bg colour!)
                    d['_after_bg'] = True
                else:
                    d['unknown'] += 1
            elif op == 'scale':
                sy, sx = stack.pop(), stack.pop()
                d['scale'] = um(sx) if sx == sy else -1
            elif op == 'newpath':
                seen_path = True
            elif op == 'moveto':
                y, x = stack.pop(), stack.pop()
                d['ops'].append({'op': 'M', 'a': um(x), 'b': um(y)})
            elif op == 'rmoveto':
                y, x = stack.pop(), stack.pop()
                d['ops'].append({'op': 'm', 'a': um(x), 'b': um(y)})
            elif op == 'rlineto':
                y, x = stack.pop(), stack.pop()
                d['ops'].append({'op': 'l', 'a': um(x), 'b': um(y)})
            elif op == 'lineto':            # absolute line: the pen machine knows L
                y, x = stack.pop(), stack.pop()
                d['ops'].append({'op': 'L', 'a': um(x), 'b': um(y)})
            elif op == 'setgray':
                g_ = stack.pop()
                pending_rgb = [int(round(float(g_) * 255 * 1000))] * 3
                if seen_path or d['bg_rgb'] or (i < len(toks) and toks[i] != 'clippath'):
                    d['stroke_rgb'] = pending_rgb
            elif op == 'setlinewidth':      # the default width 1 is what the property needs; any other width changes the covered area
                if um(stack.pop()) != 1000000:
                    d['unknown'] += 1
            elif op in ('gsave', 'grestore', 'showpage'):
                pass
            elif op == 'stroke':
                d['stroked'] = True
            else:
                d['unknown'] += 1
        except IndexError:
            d['unknown'] += 1
    if d.pop('_after_bg', False) and not d['stroke_rgb']:
        # background filled and no colour set afterwards: the strokes have the background colour
        d['stroke_rgb'] = d['bg_rgb']
    if stack:
        d['unknown'] += 1
    return d


def pdf(data):
    d = {'header_ok': data.startswith(b'%PDF-1.'), 'objects_ok': True, 'length_ok': False, 'xref_ok': False, 'mediabox': [], 'scale': 1000000,
         'translate': [0, 0], 'ops': [], 'stroke_rgb': [], 'bg_rgb': [], 'bg_rect': [], 'bg_scaled': False, 'stroked': False, 'unknown': 0,
         'remarks': []}
    m = re.search(rb'/MediaBox\s*\[\s*([^\]]+)\]', data)
    if m:
        try:
            d['mediabox'] = [um(x) for x in m.group(1).split()]
        except ValueError:
            d['mediabox'] = [-1]
    ms = re.search(rb'<<([^>]*)/Length\s+(\d+)([^>]*)>>\s*stream\r\n', data)
    stream = b''
    if ms:
        declared = int(ms.group(2))
        start = ms.end()
        end = data.find(b'\r\nendstream', start)
        d['length_ok'] = end - start == declared
        try:
            stream = zlib.decompress(data[start:end]) if b'/FlateDecode' in ms.group(0) else data[start:end]
        except zlib.error:
            d['objects_ok'] = False
    # cross reference table: every entry marked 'n' whose object is defined in the file must point at 'k 0 obj'
    mx = re.search(rb'startxref\r?\n(\d+)\r?\n%%EOF', data)
    if mx:
        pos = int(mx.group(1))
        if data[pos:pos + 4] == b'xref':
            mt = re.match(rb'xref\r?\n(\d+) (\d+)\r?\n', data[pos:])
            if mt:
                first, count = int(mt.group(1)), int(mt.group(2))
                entries = re.findall(rb'(\d{10}) (\d{5}) ([nf])\s*\r?\n', data[pos + mt.end():])
                ok = len(entries) >= count
                defined = {int(x) for x in re.findall(rb'(?:^|[\r\n])(\d+) 0 obj', data)}
                for k, (off, gen_, kind) in enumerate(entries[:count]):
                    num = first + k
                    if kind == b'n':
                        if num in defined:
                            if not re.match(rb'%d 0 obj' % num, data[int(off):]):
                                ok = False
                        else:
                            d['remarks'].append(f'xref entry for undefined object {num}')
                for num in defined:
                    if not (first <= num < first + count):
                        ok = False
                d['xref_ok'] = ok
    if b'endofbj' in data:
        d['remarks'].append("'endofbj' instead of 'endobj' after the Info dictionary")
    toks = stream.decode('ascii', 'replace').split()
    stack = []
    in_path_cm = 0
    for t in toks:
        if re.fullmatch(_SVG_NUM, t):
            stack.append(t)
            continue
        try:
            if t == 'cm':
                f, e, dd, c, b, a = [stack.pop() for _ in range(6)]
                if float(b) == 0 and float(c) == 0 and a == dd and float(e) == 0 and float(f) == 0 and in_path_cm == 0 and float(a) != 1:
                    d['scale'] = um(a)
                elif float(a) == 1 and float(dd) == 1 and float(b) == 0 and float(c) == 0:
                    d['translate'] = [d['translate'][0] + um(e), d['translate'][1] + um(f)]
                else:
                    d['unknown'] += 1
                in_path_cm += 1
            elif t == 'rg':
                b_, g_, r_ = stack.pop(), stack.pop(), stack.pop()
                d['_fill'] = [int(round(float(x) * 255 * 1000)) for x in (r_, g_, b_)]
            elif t == 'RG':
                b_, g_, r_ = stack.pop(), stack.pop(), stack.pop()
                d['stroke_rgb'] = [int(round(float(x) * 255 * 1000)) for x in (r_, g_, b_)]
            elif t == 're':
                h, w, y, x = stack.pop(), stack.pop(), stack.pop(), stack.pop()
                d['_rect'] = [um(x), um(y), um(w), um(h)]
            elif t == 'f':
                d['bg_rgb'] = d.get('_fill', [0, 0, 0])
                d['bg_rect'] = d.get('_rect', [])
                d['bg_scaled'] = d['scale'] != 1000000
            elif t == 'q':
                pass
            elif t == 'm':
                y, x = stack.pop(), stack.pop()
                d['ops'].append({'op': 'M', 'a': um(x), 'b': um(y)})
            elif t == 'l':
                y, x = stack.pop(), stack.pop()
                d['ops'].append({'op': 'L', 'a': um(x), 'b': um(y)})
            elif t == 'S':
                d['stroked'] = True
            else:
                d['unknown'] += 1
        except (IndexError, ValueError):
            d['unknown'] += 1
    d.pop('_fill', None)
    d.pop('_rect', None)
    if stack:
        d['unknown'] += 1
    return d


def tex(text):
    d = {'syntax_ok': False, 'linewidth': -1, 'unit': '', 'colour': '', 'segs': [], 'url': ''}
    body = [ln for ln in text.split('\n') if not ln.startswith('%')]
    src = '\n'.join(body)
    m = re.fullmatch(r'\s*(?:\\href\{(?P<url>[^}]*)\}\{)?\\begin\{pgfpicture\}\n(?P<inner>.*)\\end\{pgfpicture\}(?P<close>\}?)\n?\s*', src, re.S)
    if not m:
        return d
    d['url'] = m.group('url') or ''
    inner = m.group('inner')
    ok = bool(m.group('url')) == bool(m.group('close'))
    units = set()
    pend = None
    for ln in inner.split('\n'):
        ln = ln.strip()
        if not ln:
            continue
        mm = re.fullmatch(r'\\pgfsetlinewidth\{(' + _SVG_NUM + r')([a-z]*)\}', ln)
        if mm:
            d['linewidth'] = um(mm.group(1))
            units.add(mm.group(2))
            continue
        mm = re.fullmatch(r'\\color\{([^}]*)\}', ln)
        if mm:
            d['colour'] = mm.group(1)
            continue
        mm = re.fullmatch(r'\\pgfpath(moveto|lineto)\{\\pgfqpoint\{(' + _SVG_NUM + r')([a-z]*)\}\{(' + _SVG_NUM + r')([a-z]*)\}\}', ln)
        if mm:
            units.add(mm.group(3))
            units.add(mm.group(5))
            pt = (um(mm.group(2)), um(mm.group(4)))
            if mm.group(1) == 'moveto':
                if pend is not None:
                    ok = False
                pend = pt
            else:
                if pend is None:
                    ok = False
                else:
                    d['segs'].append([pend[0], pend[1], pt[0], pt[1]])
                    pend = None
            continue
        if ln == '\\pgfusepath{stroke}':
            d['stroked'] = True
            continue
        ok = False
    if pend is not None or len(units) != 1 or not d.get('stroked'):
        ok = False
    d.pop('stroked', None)
    d['unit'] = units.pop() if len(units) == 1 else '?'
    d['syntax_ok'] = ok
    return d
