------------------------------- MODULE GF256 -------------------------------
(***************************************************************************)
(* GF(2^8) with the primitive polynomial x^8+x^4+x^3+x^2+1 (0x11D) that    *)
(* ISO/IEC 18004 prescribes, built from first principles (no table is      *)
(* copied from segno/consts.py), Reed-Solomon syndromes, generator         *)
(* polynomials from their roots alpha^0..alpha^(ec-1), systematic          *)
(* encoding, and a Berlekamp-Massey / Chien / Forney decoder.              *)
(*                                                                         *)
(* All tables are built with folds so that TLC evaluates them once (a      *)
(* constant containing CHOOSE or a lazy function constructor would be      *)
(* re-evaluated on every reference).                                       *)
(***************************************************************************)
EXTENDS Integers, Sequences, Bitwise, FiniteSets, SequencesExt, FiniteSetsExt, Functions

Iota(n) == [k \in 1..n |-> k]
Zeros(k) == [i \in 1..k |-> 0] \o <<>>
Max2(a, b) == IF a >= b THEN a ELSE b
Min2(a, b) == IF a <= b THEN a ELSE b

GFExpSeq == FoldLeft(LAMBDA acc, k : Append(acc, LET d == acc[Len(acc)]*2 IN IF d >= 256 THEN d ^^ 285 ELSE d), <<1>>, Iota(254))
GFExp(i) == GFExpSeq[(i % 255)+1]
GFLogSeq == FoldLeft(LAMBDA acc, k : [acc EXCEPT ![GFExpSeq[k]] = k-1], [x \in 1..255 |-> 0] \o <<>>, Iota(255))
GFLog(a) == GFLogSeq[a]
GFMul(a,b) == IF a = 0 \/ b = 0 THEN 0 ELSE GFExp(GFLogSeq[a] + GFLogSeq[b])
GFInv(a) == GFExp(255 - GFLogSeq[a])

\* codewords highest-degree coefficient first (as transmitted)
Syndrome(cw, j) == FoldLeft(LAMBDA acc, c : GFMul(acc, GFExp(j)) ^^ c, 0, cw)
RSClean(cw, ec) == \A j \in 0..ec-1 : Syndrome(cw, j) = 0
Synd(cw, ec) == [j \in 1..ec |-> Syndrome(cw, j-1)] \o <<>>

\* generator polynomial prod_{i<ec} (x - alpha^i), highest degree first, monic (Len = ec+1)
GenPoly(ec) ==
  FoldLeft(LAMBDA g, i : LET a == GFExp(i-1) n == Len(g) IN
              [k \in 1..n+1 |-> (IF k <= n THEN g[k] ELSE 0) ^^ (IF k >= 2 THEN GFMul(g[k-1], a) ELSE 0)] \o <<>>,
           <<1>>, Iota(ec))

\* remainder of data(x) * x^ec modulo GenPoly(ec): the ec error correction codewords
RSRem(data, ec) ==
  LET g == GenPoly(ec) IN
  FoldLeft(LAMBDA rem, d :
             LET f == d ^^ rem[1] IN
             [k \in 1..ec |-> (IF k < ec THEN rem[k+1] ELSE 0) ^^ GFMul(f, g[k+1])] \o <<>>,
           Zeros(ec), data)

(* ---------------- Berlekamp-Massey / Chien / Forney ---------------- *)
\* polynomials lowest degree first
PGet(p, i) == IF i >= 1 /\ i <= Len(p) THEN p[i] ELSE 0
PEval(p, x) == FoldLeft(LAMBDA acc, i : GFMul(acc, x) ^^ p[Len(p) + 1 - i], 0, Iota(Len(p)))
PSubShift(C, B, coef, m) == [i \in 1..Max2(Len(C), Len(B) + m) |-> PGet(C, i) ^^ GFMul(coef, PGet(B, i - m))] \o <<>>
BM(S) ==
  LET N == Len(S)
      step(st, k) ==
        LET n == k - 1
            d == FoldLeft(LAMBDA a, i : a ^^ GFMul(PGet(st.C, i+1), S[k-i]), S[k], Iota(st.L))
        IN IF d = 0 THEN [st EXCEPT !.m = @ + 1]
           ELSE LET C2 == PSubShift(st.C, st.B, GFMul(d, GFInv(st.b)), st.m) IN
                IF 2 * st.L <= n THEN [C |-> C2, B |-> st.C, L |-> n + 1 - st.L, m |-> 1, b |-> d]
                ELSE [st EXCEPT !.C = C2, !.m = @ + 1]
  IN FoldLeft(step, [C |-> <<1>>, B |-> <<1>>, L |-> 0, m |-> 1, b |-> 1], Iota(N))

\* standard bounded-distance decoder: corrects up to ec \div 2 codeword errors
RSCorrect(cw, ec) ==
  LET S == Synd(cw, ec) IN
  IF \A j \in 1..ec : S[j] = 0 THEN [ok |-> TRUE, cw |-> cw, nerr |-> 0] ELSE
  LET st == BM(S) lam == st.C L == st.L N == Len(cw)
      pos == {i \in 1..N : PEval(lam, GFExp(255 - ((N - i) % 255))) = 0}
      omega == [k \in 1..ec |-> FoldLeft(LAMBDA a, i : a ^^ GFMul(PGet(lam, i), PGet(S, k + 1 - i)), 0, Iota(k))] \o <<>>
      dlam == [k \in 1..Len(lam) |-> IF k % 2 = 1 THEN PGet(lam, k+1) ELSE 0] \o <<>>
      ErrVal(i) == LET p == (N - i) % 255 xinv == GFExp(255 - p) den == PEval(dlam, xinv) IN
                   IF den = 0 THEN 0 ELSE GFMul(GFExp(p), GFMul(PEval(omega, xinv), GFInv(den)))
  IN IF 2 * L > ec \/ Cardinality(pos) # L THEN [ok |-> FALSE, cw |-> cw, nerr |-> L]
     ELSE [ok |-> TRUE, cw |-> [i \in 1..N |-> IF i \in pos THEN cw[i] ^^ ErrVal(i) ELSE cw[i]] \o <<>>, nerr |-> L]

(* ---------------- self checks (evaluated by the setup / design runs) ---------------- *)
GFSelfCheck(dummy) ==
  /\ Len(GFExpSeq) = 255
  /\ Cardinality({GFExpSeq[i] : i \in 1..255}) = 255            \* alpha has order 255
  /\ GFExpSeq[255] # 1 /\ GFMul(GFExpSeq[255], 2) = 1
  /\ \A a \in 1..255 : GFMul(a, GFInv(a)) = 1
  /\ \A ec \in {2, 5, 7, 10, 30} : Len(GenPoly(ec)) = ec + 1 /\ GenPoly(ec)[1] = 1
                                    /\ \A j \in 0..ec-1 : Syndrome(GenPoly(ec), j) = 0
  /\ LET d == <<32, 91, 11, 120, 209, 114, 220, 77, 67, 64, 236, 17, 236, 17, 236, 17>> IN
     RSClean(d \o RSRem(d, 10), 10)
=============================================================================
