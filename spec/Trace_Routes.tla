---------------------------- MODULE Trace_Routes ----------------------------
(* Trace validation for C12: every observation is one route execution together with the reference call the model
   (Routes!Effective) prescribes; TLC checks that the reference used is the one of the model and that the documents agree. *)
EXTENDS Routes, IOUtils, TLCExt

Obs == JsonDeserialize(IOEnv.TRACE_FILE)
N == Len(Obs)
VARIABLES tid, judged
tvars == <<tid, judged>>
TraceInit == tid \in 1..N /\ judged = FALSE /\ written = {} /\ last = [route |-> "none"]

SeqSet(s) == {s[i] : i \in 1..Len(s)}
Pad2(n) == IF n < 10 THEN "0" \o ToString(n) ELSE ToString(n)
ExpectedSeqNames(base, ext, n) == IF n = 1 THEN {base \o "." \o ext}
                                  ELSE {base \o "-" \o Pad2(n) \o "-" \o Pad2(i) \o "." \o ext : i \in 1..n}
RouteFails(o) ==
  LET S == SeqSet(o.opts) e == Effective(o.kind, o.route, S) IN
  {c \in {"applicable", "reference_is_the_models", "same_outcome", "same_document", "uri_prefix", "cli_exit_status"} :
     CASE c = "applicable" -> ~Applicable(o.kind, o.route, S)
       [] c = "reference_is_the_models" -> SeqSet(o.ref_given) # e.given \/ SeqSet(o.ref_forced) # e.forced
       [] c = "same_outcome" -> o.got.status # o.ref.status
       [] c = "same_document" -> o.got.status = "ok" /\ o.ref.status = "ok" /\ (o.got.sha # o.ref.sha \/ o.got.len # o.ref.len)
       [] c = "uri_prefix" -> o.route = "data_uri" /\ o.got.status = "ok" /\ ~o.prefix_ok
       [] c = "cli_exit_status" -> o.route \in {"cli", "cli_upper_ext"} /\ ((o.exit = 0) # (o.got.status = "ok"))}
OtherFails(o) ==
  CASE o.family = "seq" -> {c \in {"sequence_file_names", "sequence_file_contents"} :
                              CASE c = "sequence_file_names" -> SeqSet(o.files) # ExpectedSeqNames(o.base, o.ext, o.n) \/ Len(o.files) # o.n
                                [] c = "sequence_file_contents" -> \E i \in 1..Len(o.equal) : ~o.equal[i]}
    [] o.family = "unknown_ext" -> {c \in {"unknown_extension_refused"} : ~(o.status = "raise" /\ o.is_value_error)}
    [] o.family = "cli_terminal" -> {c \in {"cli_prints_terminal_output", "cli_exit_status"} :
                              CASE c = "cli_prints_terminal_output" -> o.stdout_sha # o.terminal_sha
                                [] c = "cli_exit_status" -> o.exit # 0}
Verdict(o) == [tid |-> o.tid, fails |-> {<<"C12", c>> : c \in (IF o.family = "route" THEN RouteFails(o) ELSE OtherFails(o))}, devs |-> {},
               facts |-> [family |-> o.family]]
\* a route observation is replayed as the Write step of the model
Step == /\ ~judged /\ Obs[tid].family = "route" /\ written = {}
        /\ Applicable(Obs[tid].kind, Obs[tid].route, SeqSet(Obs[tid].opts))
        /\ Write(Obs[tid].kind, Obs[tid].route, SeqSet(Obs[tid].opts)) /\ UNCHANGED tvars
Judge == /\ ~judged /\ judged' = TRUE /\ UNCHANGED <<tid, written, last>>
         /\ (Obs[tid].family # "route" \/ written # {} \/ ~Applicable(Obs[tid].kind, Obs[tid].route, SeqSet(Obs[tid].opts)))
         /\ PrintT(<<"VERDICT", ToJson(Verdict(Obs[tid]))>>)
TraceNext == Step \/ Judge
AllJudged == TLCGet("distinct") >= 2 * N
=============================================================================
