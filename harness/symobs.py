"""Driving segno's public factory functions and projecting calls/results to observations (the abstraction function)."""
import codecs
import signal
import multiprocessing as mp
from . import common

MICRO = {'M1': -3, 'M2': -2, 'M3': -1, 'M4': 0}


# ------------------------------------------------------------------ call encoding (JSON-able, for replay files)
def enc_content(c):
    if isinstance(c, bytes):
        return {'t': 'bytes', 'v': list(c)}
    if isinstance(c, bool):
        # not a documented content type, but an int for Python: only used where the OUTCOME is compared with the outcome of the same call
        # in another history (C15: 1 == True and 0 == False must not be confused by a memo)
        return {'t': 'bool', 'v': int(c)}
    if isinstance(c, int):
        return {'t': 'int', 'v': str(c)}
    if isinstance(c, str):
        return {'t': 'str', 'v': [ord(ch) for ch in c]}
    if isinstance(c, tuple):
        # (content, mode constant or None[, encoding or None]): a part with its own mode / encoding (encoder.prepare_data)
        return {'t': 'tuple', 'v': [enc_content(c[0])] + list(c[1:])}
    if isinstance(c, list):
        return {'t': 'list', 'v': [enc_content(x) for x in c]}
    raise TypeError(type(c))


def dec_content(d):
    t = d['t']
    if t == 'bytes':
        return bytes(d['v'])
    if t == 'int':
        return int(d['v'])
    if t == 'bool':
        return bool(d['v'])
    if t == 'str':
        return ''.join(chr(x) for x in d['v'])
    if t == 'tuple':
        return tuple([dec_content(d['v'][0])] + list(d['v'][1:]))
    return [dec_content(x) for x in d['v']]


MODE_CONST = {1: 'numeric', 2: 'alphanumeric', 4: 'byte', 8: 'kanji', 13: 'hanzi'}


def call(api, content, **kw):
    return {'api': api, 'content': enc_content(content), 'kw': kw}


CONTAINERS = ('tuple', 'gen', 'iter', 'map')


def in_container(c, kind):
    """the same call with the list of parts handed over as a tuple / generator / list iterator / map object (one-shot iterables)"""
    assert c['content']['t'] == 'list' and kind in CONTAINERS
    return dict(c, container=kind)


def _containerise(content, kind):
    if kind == 'tuple':
        return tuple(content)
    if kind == 'gen':
        return (p for p in content)
    if kind == 'iter':
        return iter(content)
    if kind == 'map':
        return map(lambda p: p, content)
    return content


# ------------------------------------------------------------------ abstraction of the arguments
def codec_name(enc):
    return codecs.lookup(enc).name


def _try(text, enc):
    try:
        return True, list(text.encode(enc))
    except (UnicodeError, LookupError):
        return False, []


def part_desc(item, mode, encoding):
    hanzi = isinstance(mode, str) and mode.lower() == 'hanzi'
    d = {'kind': 'str', 'hanzi': hanzi, 'req_enc': 'none', 'raw': [], 'req': [], 'gb2312': [],
         'latin1_ok': False, 'latin1': [], 'sjis_ok': False, 'sjis': [], 'utf8': []}
    if encoding is not None:
        try:
            d['req_enc'] = codec_name(encoding)
        except LookupError:
            d['req_enc'] = 'unknown:' + str(encoding)
    if isinstance(item, bytes):
        d['kind'] = 'bytes'
        d['raw'] = list(item)
        return d
    if isinstance(item, int):
        d['kind'] = 'int'
        d['raw'] = list(str(item).encode('ascii'))
        return d
    text = item
    if hanzi:
        _, d['gb2312'] = _try(text, 'gb2312')
    elif encoding is not None:
        _, d['req'] = _try(text, encoding)
    else:
        d['latin1_ok'], d['latin1'] = _try(text, 'iso-8859-1')
        if not d['latin1_ok']:
            d['sjis_ok'], d['sjis'] = _try(text, 'shift_jis')
            if not d['sjis_ok']:
                d['utf8'] = list(text.encode('utf-8'))
    return d


def expectation(content, kw):
    mode, encoding = kw.get('mode'), kw.get('encoding')
    items = content if isinstance(content, (list, tuple)) else [content]
    mask = kw.get('mask')
    try:
        mask_req = -1 if mask is None else int(mask)
    except (TypeError, ValueError):
        mask_req = -1
    parts = []
    for x in items:
        if isinstance(x, tuple):
            pm = MODE_CONST.get(x[1]) if len(x) > 1 and x[1] else mode
            pe = x[2] if len(x) > 2 and x[2] else encoding
            parts.append(part_desc(x[0], pm, pe))
        else:
            parts.append(part_desc(x, mode, encoding))
    return {'parts': parts, 'eci': bool(kw.get('eci', False)),
            'mask_req': mask_req, 'faults': [], 'exh_single': False}


# ------------------------------------------------------------------ projection of the result
def version_int(v):
    return MICRO[v] if isinstance(v, str) else int(v)


def project_symbol(qr):
    m = [list(row) for row in qr.matrix]
    w, h = qr.symbol_size()
    sizes = []
    for sc, b in ((1, None), (3, 0), (2, 7), (10, 1)):
        ww, hh = qr.symbol_size(scale=sc, border=b)
        sizes.append([sc, -1 if b is None else b, ww, hh])
    return {'version': version_int(qr.version), 'error': qr.error if qr.error is not None else '-',
            'mask': qr.mask, 'mode': qr.mode if qr.mode is not None else 'none', 'is_micro': bool(qr.is_micro),
            'designator': qr.designator, 'default_border': qr.default_border_size,
            'symbol_size': [w, h], 'sizes': sizes, 'matrix': m}


def outcome_of_exception(e):
    return {'status': 'raise', 'exc': type(e).__name__, 'mro': [c.__name__ for c in type(e).__mro__], 'msg': str(e)[:300]}


class _Timeout(Exception):
    pass


# documented signatures of the factory functions (docs/api.rst): parameter order and defaults
SIGNATURES = {'make': ('error', 'version', 'mode', 'mask', 'encoding', 'eci', 'micro', 'boost_error'),
              'make_qr': ('error', 'version', 'mode', 'mask', 'encoding', 'eci', 'boost_error'),
              'make_micro': ('error', 'version', 'mode', 'mask', 'encoding', 'boost_error'),
              'make_sequence': ('error', 'version', 'mode', 'mask', 'encoding', 'boost_error', 'symbol_count')}
DEFAULTS = {'error': None, 'version': None, 'mode': None, 'mask': None, 'encoding': None, 'eci': False, 'micro': None, 'boost_error': True,
            'symbol_count': None}


def _alarm(signum, frame):
    raise _Timeout()


def execute(c, time_limit=120):
    """Run one call against segno from /repo. Returns (outcome, result-or-None, list of results for sequences)."""
    segno = common.use_repo()
    content = _containerise(dec_content(c['content']), c.get('container'))
    fn = getattr(segno, c['api'])
    old = signal.signal(signal.SIGALRM, _alarm)
    signal.alarm(time_limit)
    try:
        conv = c.get('conv')
        if conv == 'positional':        # the documented parameter order, everything given positionally
            r = fn(content, *[c['kw'].get(k, DEFAULTS[k]) for k in SIGNATURES[c['api']]])
        elif conv == 'explicit':        # every parameter by keyword, the omitted ones with their documented default (None given explicitly)
            r = fn(content=content, **{k: c['kw'].get(k, DEFAULTS[k]) for k in SIGNATURES[c['api']]})
        else:
            r = fn(content, **c['kw'])
        if c['api'] == 'make_sequence':
            return {'status': 'ok'}, None, [project_symbol(q) for q in r]
        return {'status': 'ok'}, project_symbol(r), None
    except _Timeout:
        return {'status': 'timeout', 'exc': 'Timeout', 'mro': [], 'msg': f'no result within {time_limit}s'}, None, None
    except BaseException as e:  # noqa: everything is an observation
        if isinstance(e, (KeyboardInterrupt, SystemExit)):
            raise
        return outcome_of_exception(e), None, None
    finally:
        signal.alarm(0)
        signal.signal(signal.SIGALRM, old)


def observe(c, props=()):
    """One observation of one make/make_qr/make_micro call."""
    outcome, res, _ = execute(c)
    content = dec_content(c['content'])
    o = {'_call': c, 'props': list(props), 'outcome': outcome, 'exp': expectation(content, c['kw'])}
    if res is not None:
        o['res'] = res
        o['_cost'] = len(res['matrix']) ** 2
    return o


def observe_sequence_symbols(c, props=()):
    """make_sequence call -> one symbol observation per returned symbol (content expectations do not apply per symbol)."""
    outcome, _, syms = execute(c, time_limit=300)
    content = dec_content(c['content'])
    res = []
    for i, sres in enumerate(syms or []):
        o = {'_call': c, '_index': i, 'props': list(props), 'outcome': outcome, 'exp': expectation(content, c['kw']), 'res': sres,
             '_cost': len(sres['matrix']) ** 2}
        res.append(o)
    if not res:
        res.append({'_call': c, 'props': list(props), 'outcome': outcome, 'exp': expectation(content, c['kw'])})
    return res


def _observe_star(args):
    return observe(*args)


def observe_many(calls, props=(), procs=None):
    """Observe many calls on a process pool (segno is imported from /repo in every worker)."""
    if not calls:
        return []
    procs = procs or common.NCPU
    if len(calls) < 8 or procs == 1:
        return [observe(c, props) for c in calls]
    ctx = mp.get_context('fork')
    with ctx.Pool(procs) as pool:
        return pool.map(_observe_star, [(c, props) for c in calls], chunksize=max(1, len(calls) // (procs * 8)))
