#!/bin/sh
# usage: round.sh <round letter> <property ids...>  -- takes /tmp/mut/<letter>/out_<ID>/{patch.diff,demo.py,meta.json} into seeded/<ID><letter>,
# removes the agents' worktrees, confirms every change (tools/confirm_mutant.sh) and runs the quick check of its property against it.
L="$1"; shift
for id in "$@"; do
  mkdir -p /verif/seeded/${id}$L && cp /tmp/mut/$L/out_$id/patch.diff /tmp/mut/$L/out_$id/demo.py /tmp/mut/$L/out_$id/meta.json /verif/seeded/${id}$L/
  git -C /repo worktree remove --force /tmp/mut/$L/wt_$id 2>/dev/null
done
(for id in "$@"; do /verif/tools/confirm_mutant.sh /verif/seeded/${id}$L & done; wait) | tee /tmp/mut/$L/confirm.txt
(for id in "$@"; do /verif/tools/run_mutant.sh ${id}$L $id quick & done; wait) | tee /tmp/mut/$L/run1.txt
