CONSTANTS
  MaxDelay = 8
SPECIFICATION Spec
CHECK_DEADLOCK FALSE
INVARIANT TypeOK
INVARIANT ViewerSeesCompleteFile
INVARIANT ViewerOnlyAfterEnvDelete
INVARIANT NothingLeftAfterFailure
INVARIANT NotDeletedEarly
INVARIANT NoDeleterWithoutDelay
INVARIANT CleanupOnlyOnFailure
INVARIANT HandleClosedAtEnd
INVARIANT DeviationNeedsEnv
PROPERTY ReturnDoesNotWait
PROPERTY Terminates
PROPERTY EventuallyDeleted
PROPERTY KeptWithoutDelay
