CONSTANTS
  MaxObjs = 3
INIT TraceInit
NEXT TraceNext
CHECK_DEADLOCK FALSE
POSTCONDITION AllJudged
