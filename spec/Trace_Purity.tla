---------------------------- MODULE Trace_Purity ----------------------------
(***************************************************************************)
(* Trace validation for C15.  An observation is the log of one executed    *)
(* history / schedule: a sequence of steps, each with the digests of the   *)
(* library tables, of every symbol returned so far, of the argument        *)
(* objects, and (for a step that completes a call) of the result.  The     *)
(* log is consumed step by step; the state carries what the properties of  *)
(* Purity.tla talk about (tables, returned symbols, memo), and every       *)
(* deviation is recorded as a failing clause (total verdict).              *)
(***************************************************************************)
EXTENDS Integers, Sequences, FiniteSets, TLC, Json, IOUtils, TLCExt

Obs == JsonDeserialize(IOEnv.TRACE_FILE)
N == Len(Obs)
VARIABLES tid, l, tables, returned, memo, fails, judged
vars == <<tid, l, tables, returned, memo, fails, judged>>

\* o.steps[i]: [thread, what ("run" | "return" | "save" | "iter"), call, tables, symbols (digests of all symbols returned so far, in order),
\*              args_before, args_after, result ("none" or digest)]
\* o.ref: record call name -> digest of the result of that call in a fresh interpreter; o.tables0: digest at start
TraceInit == /\ tid \in 1..N /\ l = 1 /\ tables = Obs[tid].tables0 /\ returned = <<>> /\ memo = Obs[tid].ref /\ fails = {} /\ judged = FALSE
Consume ==
  /\ ~judged /\ l <= Len(Obs[tid].steps)
  /\ LET s == Obs[tid].steps[l]
         newfails ==
           (IF s.tables # tables THEN {"tables_constant"} ELSE {})
           \cup (IF \E i \in 1..Len(returned) : i > Len(s.symbols) \/ s.symbols[i] # returned[i] THEN {"returned_symbols_immutable"} ELSE {})
           \cup (IF s.args_before # s.args_after THEN {"arguments_unchanged"} ELSE {})
           \* "return_untracked": free-running threads log the result only (the returned objects are not kept, so there is nothing to re-digest)
           \cup (IF s.what \in {"return", "return_untracked"} /\ s.result # memo[s.call] THEN {"deterministic_result"} ELSE {})
           \cup (IF s.what = "reencode" /\ s.result # memo[s.call] THEN {"reencode_identical"} ELSE {})
     IN /\ fails' = fails \cup newfails
        /\ tables' = tables                     \* the specification never changes the tables; a different digest is a failing clause
        /\ returned' = IF s.what = "return" THEN Append(returned, s.result) ELSE returned
        /\ memo' = memo
  /\ l' = l + 1 /\ UNCHANGED <<tid, judged>>
Judge == /\ ~judged /\ l > Len(Obs[tid].steps) /\ judged' = TRUE
         /\ UNCHANGED <<tid, l, tables, returned, memo, fails>>
         /\ PrintT(<<"VERDICT", ToJson([tid |-> Obs[tid].tid, fails |-> {<<"C15", c>> : c \in fails}, devs |-> {},
                                         facts |-> [steps |-> Len(Obs[tid].steps), returned |-> Len(returned)]])>>)
TraceNext == Consume \/ Judge
\* the action properties of Purity.tla hold along the replayed trace (by construction of Consume)
TablesConstant == [][tables' = tables]_vars
ReturnedAppendOnly == [][Len(returned') >= Len(returned) /\ SubSeq(returned', 1, Len(returned)) = returned]_vars
TraceSpec == TraceInit /\ [][TraceNext]_vars
AllJudged == TLCGet("distinct") >= 2 * N
=============================================================================
