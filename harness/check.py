"""bin/check <ID> [--tier quick|thorough] [--replay FILE] | --setup | --selftest | --extras [--tier ...]"""
import argparse
import json
import os
import sys
import traceback

from . import common, engine


def registry():
    from . import props_sym
    reg = {'C01': props_sym.run_c01, 'C02': props_sym.run_c02, 'C03': props_sym.run_c03,
           'C06': props_sym.run_c06, 'C13': props_sym.run_c13}
    for modname in ('props_decide', 'props_args', 'props_seq', 'props_render', 'props_routes', 'props_purity', 'props_helpers'):
        try:
            mod = __import__('harness.' + modname, fromlist=['REGISTRY'])
        except ModuleNotFoundError as e:
            if modname in str(e):
                continue
            raise
        reg.update(mod.REGISTRY)
    return reg


def setup():
    """Parse every module with SANY, run the self checks of the table modules, export the tables."""
    import subprocess
    ok = True
    for f in sorted(os.listdir(common.SPEC)):
        if not f.endswith('.tla'):
            continue
        p = subprocess.run(['java', '-cp', common.TLA_CP, 'tla2sany.SANY', f], cwd=common.SPEC,
                           stdout=subprocess.PIPE, stderr=subprocess.STDOUT)
        out = p.stdout.decode()
        bad = p.returncode != 0 or 'rror' in out.replace('Errors: 0', '')
        print(('FAIL ' if bad else 'ok   ') + f)
        if bad:
            print(out[-1500:])
            ok = False
    import shutil
    import tempfile
    tmp = tempfile.mkdtemp(prefix='apalache_setup_', dir=common.workdir('setup'))
    p = subprocess.run(['apalache-mc', 'typecheck', '--out-dir=' + tmp, 'PurityInd.tla'], cwd=os.path.join(common.SPEC, 'apalache'),
                       stdout=subprocess.PIPE, stderr=subprocess.STDOUT)
    shutil.rmtree(tmp, ignore_errors=True)
    bad = 'EXITCODE: OK' not in p.stdout.decode()
    print(('FAIL ' if bad else 'ok   ') + 'apalache/PurityInd.tla (Apalache type checker)')
    if bad:
        print(p.stdout.decode()[-1500:])
        ok = False
    from . import tables
    tables.load(force=True)
    print('ok   table self checks (GF256, ISOTables) and export')
    return 0 if ok else 2


def replay(pid, path):
    from . import replay as rp
    return rp.replay(pid, path)


def main(argv=None):
    ap = argparse.ArgumentParser()
    ap.add_argument('pid', nargs='?')
    ap.add_argument('--tier', default=os.environ.get('VERIF_TIER', 'quick'), choices=['quick', 'thorough'])
    ap.add_argument('--replay')
    ap.add_argument('--setup', action='store_true')
    ap.add_argument('--selftest', action='store_true')
    ap.add_argument('--extras', action='store_true', help='conformance with the parts of the specification beyond the listed properties')
    a = ap.parse_args(argv)
    os.chdir(common.VERIF)
    try:
        if a.setup:
            return setup()
        if a.selftest:
            from . import selftest
            return selftest.run()
        if a.extras:
            common.use_repo()
            from . import props_objects, props_show
            return max(props_objects.run(a.tier), props_show.run(a.tier))
        reg = registry()
        if a.pid not in reg:
            print(f'unknown property {a.pid}; known: {sorted(reg)}')
            return 2
        if a.replay:
            return replay(a.pid, a.replay)
        common.use_repo()
        from . import tables
        tables.load()          # before any worker process is forked
        rep = engine.Report(a.pid, a.tier)
        reg[a.pid](rep, a.tier)
        return rep.finish()
    except common.MachineryError as e:
        print(f'MACHINERY-FAILURE: {e}')
        return 2
    except Exception:
        traceback.print_exc()
        print('MACHINERY-FAILURE: unexpected exception in the harness')
        return 2


if __name__ == '__main__':
    sys.exit(main())
