---------------------------- MODULE Trace_Decide ----------------------------
(***************************************************************************)
(* Trace validation for the decision model (C04, C05, C07 and the refusal  *)
(* part of C14).  Every observation is one call of make / make_qr /        *)
(* make_micro with single-part content.  The observation's arguments are   *)
(* abstracted (ClassOfBytes), the actions of Decide are run from that      *)
(* initial state to the terminal state, and the outcome the specification  *)
(* reaches is compared with what was observed: refusal / exception class,  *)
(* and - read from the returned matrix itself - version (size), error      *)
(* level (format information) and mode (first mode indicator).             *)
(***************************************************************************)
EXTENDS Decide, SymCheck, IOUtils, TLCExt

Obs == JsonDeserialize(IOEnv.TRACE_FILE)
N == Len(Obs)
VARIABLES tid, judged
tvars == <<tid, judged>>

\* o.args: [bytes, hanzi_req, nondefault, mode, version, error, micro, eci, boost]
Abs(o) == [cls |-> ClassOfBytes(o.args.bytes, o.args.mode = "hanzi", o.args.nondefault), n |-> Len(o.args.bytes),
           mode |-> o.args.mode, version |-> o.args.version, error |-> o.args.error, micro |-> o.args.micro,
           eci |-> o.args.eci, boost |-> o.args.boost]

TraceInit == /\ tid \in 1..N /\ judged = FALSE
             /\ a = Abs(Obs[tid])
             /\ pc = "start" /\ mode = "none" /\ ver = NoVersion /\ lvl = "?" /\ out = [st |-> "?"]

\* the first k bits of the data bit stream (bottom-right corner upwards; no function pattern is in the way for k <= 16)
FirstBits(M, v, mask, k) ==
  LET n == Len(M) IN
  [i \in 1..k |-> LET r == n - 1 - ((i-1) \div 2) c == n - 1 - ((i-1) % 2) IN
                  (At(M, r, c) + (IF MaskBit(v, mask, r, c) THEN 1 ELSE 0)) % 2] \o <<>>
SymbolFacts(M) ==
  LET n == Len(M) micro == n < 21
      v0 == VersionOfSize(n)
      f1 == FormatCopy1(M, v0)
      fd == FormatDecode(f1, micro)
      v == IF micro THEN fd.mver ELSE v0
      fb == FirstBits(M, v, fd.mask, 8)
      ind == Val(fb, 0, ModeBits(v))
      m0 == ModeOf(v, ind)
      \* behind an ECI header the mode indicator lies in the second data codeword, which interleaving moves away from
      \* the first one: decode the whole symbol in that (rare) case
      full == DataSegs(DecodeAs(M, v, fd.level, fd.mask).segs)
      m == IF m0 = "eci" THEN (IF fd.valid /\ HasLevel(v, fd.level) /\ Len(full) >= 1 THEN full[1].mode ELSE "?") ELSE m0
  IN [version |-> v, level |-> fd.level, fmt_ok |-> fd.valid /\ n = Size(v), mode |-> m, eci_first |-> m0 = "eci"]

Verdict(o) ==
  LET ok == o.outcome.status = "ok"
      refused == o.outcome.status = "raise"
      IsVE == refused /\ InSeq("ValueError", o.outcome.mro)
      IsDOE == refused /\ InSeq("DataOverflowError", o.outcome.mro)
      f == IF ok /\ ValidShape(o.res.matrix) /\ Values01(o.res.matrix) THEN SymbolFacts(o.res.matrix)
           ELSE [version |-> NoVersion, level |-> "?", fmt_ok |-> FALSE, mode |-> "?", eci_first |-> FALSE]
      wantok == out.st = "ok"
      fails ==
        (IF wantok /\ ~ok THEN { <<"C04", "refused_although_fits">> : x \in {1} } \cup {<<"C14", "refused_valid_call">>}
                               \* a requested mode in which the content is representable and that the version supports is used, not refused;
                               \* (a refusal for lack of space is C04's business: only refusals that are not overflows count here)
                               \cup (IF a.mode # "none" /\ ~IsDOE THEN {<<"C07", "requested_mode_refused">>} ELSE {})
                               \* without a requested mode the content is encoded in the first applicable mode (byte always applies):
                               \* a refusal that is not an overflow means the mode search chose a mode the content is not representable in
                               \cup (IF a.mode = "none" /\ ~IsDOE THEN {<<"C07", "automatic_mode_refused_content">>} ELSE {}) ELSE {})
        \cup (IF out.st = "DataOverflowError" /\ ok THEN {<<"C04", "accepted_although_overflow">>} ELSE {})
        \cup (IF out.st = "DataOverflowError" /\ refused /\ ~IsDOE THEN {<<"C04", "overflow_not_reported_as_DataOverflowError">>} ELSE {})
        \cup (IF out.st = "ValueError" /\ ok THEN {<<"C14", "accepted_although_excluded">>} \cup
                   (IF out.why = "content not representable in requested mode" THEN {<<"C07", "unrepresentable_mode_accepted">>} ELSE {}) ELSE {})
        \cup (IF ~ok /\ ~IsVE THEN {<<"C14", "not_a_ValueError">>} ELSE {})
        \cup (IF ~ok /\ ~IsVE /\ out.st = "ValueError" /\ out.why \in {"content not representable in requested mode", "mode not available in version"}
              THEN {<<"C07", "refusal_is_not_a_ValueError">>} ELSE {})
        \cup (IF wantok /\ ok THEN
                 {x \in { <<"C04", "version">>, <<"C05", "level">>, <<"C07", "mode">>, <<"C07", "mode_reported">>, <<"C02", "format">>,
                          <<"C04", "version_reported">>, <<"C05", "level_reported">> } :
                     CASE x[2] = "version" -> f.version # out.version
                       [] x[2] = "level" -> f.level # out.error
                       [] x[2] = "mode" -> f.mode # out.mode
                       [] x[2] = "mode_reported" -> o.res.mode # f.mode
                       [] x[2] = "format" -> ~f.fmt_ok
                       [] x[2] = "version_reported" -> o.res.version # f.version
                       [] x[2] = "level_reported" -> o.res.error # f.level}
              ELSE {})
  IN [tid |-> o.tid, fails |-> fails, devs |-> {},
      facts |-> [cls |-> a.cls, n |-> a.n, predicted |-> out, seen |-> [version |-> f.version, level |-> f.level, mode |-> f.mode],
                 status |-> o.outcome.status]]

Judge == /\ pc = "done" /\ ~judged /\ judged' = TRUE
         /\ UNCHANGED <<vars, tid>>
         /\ PrintT(<<"VERDICT", ToJson(Verdict(Obs[tid]))>>)
TraceNext == (Next /\ UNCHANGED tvars) \/ Judge
TraceSpec == TraceInit /\ [][TraceNext]_<<vars, tvars>>
AllJudged == TLCGet("distinct") >= 3 * N
=============================================================================
