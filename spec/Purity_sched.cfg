CONSTANTS
  Thread = {t1, t2}
  Calls = {"A", "B"}
  MaxCalls = 2
  MaxSwitches = 2
  AllowDev = FALSE
SPECIFICATION Spec
CHECK_DEADLOCK FALSE
CONSTRAINT BoundedSwitches
INVARIANT Deterministic
INVARIANT Export
