"""C08: Structured Append sequences (make_sequence)."""
import multiprocessing as mp
from . import common, symobs, gen, engine, props_decide
from . import tables as T
from .symobs import call


def seq_observation(c):
    outcome, _, syms = symobs.execute(c, time_limit=300)
    content = symobs.dec_content(c['content'])
    kw = c['kw']
    if isinstance(content, list):       # a message in parts: the bytes of the parts, one after the other
        msg = []
        for part in content:
            msg += props_decide.policy_bytes(symobs.part_desc(part, kw.get('mode'), kw.get('encoding')))[0]
    else:
        p = symobs.part_desc(content, kw.get('mode'), kw.get('encoding'))
        msg, _enc = props_decide.policy_bytes(p)
    v = kw.get('version')
    o = {'_call': c, 'outcome': outcome, 'message': msg,
         'args': {'version': 99 if v is None else int(v), 'symbol_count': -1 if kw.get('symbol_count') is None else int(kw['symbol_count']),
                  'error': '-' if kw.get('error') is None else str(kw['error']).upper(), 'boost': bool(kw.get('boost_error', True)),
                  'mode': 'none' if kw.get('mode') is None else str(kw['mode']).lower()},
         'syms': syms or []}
    o['_cost'] = sum(len(s['matrix']) ** 2 for s in o['syms']) + 1
    return o


def gen_calls(tier, seed):
    r = gen.rng(seed, 'C08')
    calls = []
    quick = tier == 'quick'
    versions = (1, 2, 3, 4, 5, 10, 27, 40) if quick else tuple(range(1, 41))

    def content(kind, n):
        return {'numeric': gen.digits, 'alphanumeric': gen.alnum, 'latin1': gen.latin1, 'utf8': gen.utf8_text, 'sjis': gen.sjis_text,
                'kanji': gen.kanji, 'bytes': gen.raw_bytes}[kind](r, n)
    kinds = ('numeric', 'alphanumeric', 'latin1', 'utf8', 'kanji', 'bytes', 'sjis')
    mode_of = {'numeric': 'numeric', 'alphanumeric': 'alphanumeric', 'latin1': 'byte', 'utf8': 'byte', 'sjis': 'byte', 'kanji': 'kanji', 'bytes': 'byte'}
    # version given: lengths around k * capacity
    for v in versions:
        for e in ('L', 'H') if quick else ('L', 'M', 'Q', 'H'):
            for kind in (kinds if v <= 5 else (kinds[(v + ord(e)) % len(kinds)],)):
                cap1 = T.max_chars(v, e, mode_of[kind])
                if cap1 < 1:
                    continue
                ks = (1, 2, 3, 16) if v <= 5 else (2,) if v < 40 else (1,)
                for k in ks:
                    for d in ((-1, 0, 1) if v <= 3 else (0,)):
                        n = k * cap1 + d
                        if kind in ('utf8',):
                            n = max(1, n // 3)
                        if n < 1 or n > 60000:
                            continue
                        if v >= 27 and k > 2:
                            continue
                        calls.append(call('make_sequence', content(kind, n), version=v, error=e, boost_error=r.choice((True, False))))
    # all lengths on version 1 and 2 (the smallest symbols expose every rounding of the split)
    for v in (1, 2):
        for kind in ('numeric', 'alphanumeric', 'latin1'):
            top = T.max_chars(v, 'L', mode_of[kind]) * (3 if quick else 16)
            for n in range(1, top + 1, 1 if quick else 1):
                if quick and n % 3 and n > 20:
                    continue
                calls.append(call('make_sequence', content(kind, n), version=v, error=r.choice(('L', 'M', 'Q', 'H'))))
    # symbol_count given
    for k in range(1, 17):
        for kind in kinds:
            for n in sorted({k, k + 1, 2 * k + 1, 7 * k + 3, 40 * k + r.randint(0, 39)}):
                if kind == 'kanji' and n < k:
                    continue
                kw = {'symbol_count': k}
                if r.random() < 0.5:
                    kw['error'] = r.choice(('L', 'M', 'Q', 'H'))
                if r.random() < 0.3:
                    kw['boost_error'] = False
                calls.append(call('make_sequence', content(kind, n), **kw))
    # symbol_count route: chunks that fill a symbol exactly / within a few bits (header 20 + 4 + count bits)
    for kind, mode in (('numeric', 'numeric'), ('alphanumeric', 'alphanumeric'), ('kanji', 'kanji')):
        for v, e in ((1, 'L'), (1, 'M'), (1, 'H'), (2, 'L'), (3, 'Q')):
            per = T.max_chars(v, e, mode, extra=20)
            for k in (2, 3, 4):
                for d in (-2, -1, 0, 1):
                    n = k * per + d
                    if n >= k:
                        calls.append(call('make_sequence', content(kind, n), symbol_count=k, error=e, boost_error=False))
                        if d == 0:
                            calls.append(call('make_sequence', content(kind, n), symbol_count=k, error=e))
    # heterogeneous messages: a leading run of a denser class (digits / upper case / kanji) that covers whole chunks; the symbols are sized
    # and written in the mode of the WHOLE message (chunk lengths around every capacity step of versions 1-6)
    for lead, rest in (('7', 'a'), ('7', 'A'), ('A', 'a'), ('\u70b9', '\uff71')):
        for k in (2, 3, 4):
            for per in ((8, 11, 14, 16, 17, 20, 26, 32, 42, 52, 53, 62, 78, 84, 106, 134) if quick else range(4, 140)):
                if lead == '\u70b9':
                    per = max(2, per // 2)
                msg = lead * per + rest * (per * (k - 1))
                for e in (None, 'H') if quick else (None, 'M', 'Q', 'H'):
                    kw = {'symbol_count': k}
                    if e:
                        kw['error'] = e
                    calls.append(call('make_sequence', msg, **kw))
                if per % 3 == 2 or not quick:
                    calls.append(call('make_sequence', msg, version=1 + per // 12))
    # every cell of the capacity table once: two chunks that are one character too long for (v, e) must end up in larger symbols
    # (thorough: also the exact fit and the other modes)
    for v in range(1, 40):
        for e in ('L', 'M', 'Q', 'H'):
            for kind, mode in ((('latin1', 'byte'),) if quick else (('latin1', 'byte'), ('numeric', 'numeric'), ('alphanumeric', 'alphanumeric'), ('kanji', 'kanji'))):
                per = T.max_chars(v, e, mode, extra=20)
                if per < 1:
                    continue
                calls.append(call('make_sequence', content(kind, 2 * per + 2), symbol_count=2, error=e, boost_error=False))
                if not quick:
                    calls.append(call('make_sequence', content(kind, 2 * per), symbol_count=2, error=e, boost_error=False))
    # requested modes on sequences (hanzi needs it; byte on digits; kanji on kanji)
    for k in (2, 3):
        calls.append(call('make_sequence', gen.hanzi(r, 9 * k), symbol_count=k, mode='hanzi'))
        calls.append(call('make_sequence', gen.hanzi(r, 40), version=1, mode='hanzi'))
        calls.append(call('make_sequence', gen.digits(r, 30 * k), symbol_count=k, mode='byte'))
        calls.append(call('make_sequence', gen.kanji(r, 8 * k), symbol_count=k, mode='kanji', error='M'))
        calls.append(call('make_sequence', gen.digits(r, 50), version=1, mode='alphanumeric'))
    # explicit encodings whose bytes happen to be valid kanji pairs (the stated encoding still decides the message bytes and the parity)
    hira = '\u3041\u3042\u3043\u3044\u3045\u3046\u3047\u3048\u3049\u304a\u304b\u304c'
    for k in (2, 3):
        calls.append(call('make_sequence', hira, symbol_count=k, encoding='utf-8'))
        calls.append(call('make_sequence', hira * 3, version=1, encoding='utf-8'))
        calls.append(call('make_sequence', '\u2460\u2461\u2462\u3231' * 3, symbol_count=k, encoding='cp932'))
        calls.append(call('make_sequence', '\xa7\xb0\xb1\xd7' * 4, symbol_count=k, encoding='shift_jis'))
        calls.append(call('make_sequence', gen.kanji(r, 12), symbol_count=k, encoding='shift_jis'))
        calls.append(call('make_sequence', gen.kanji(r, 12).encode('shift_jis'), symbol_count=k, encoding='shift_jis'))
    # explicit encodings and integers
    for enc in ('utf-8', 'iso-8859-15', 'shift_jis'):
        for k in (2, 3):
            calls.append(call('make_sequence', 'Grüße aus Köln ' * 3 if enc != 'shift_jis' else 'ｱｲｳabc' * 4, symbol_count=k, encoding=enc))
            calls.append(call('make_sequence', ('Grüße ' * 20) if enc != 'shift_jis' else 'ｱｲｳabc' * 20, version=1, encoding=enc))
    for i in (12345678901234567890, 10 ** 60 + 7):
        calls.append(call('make_sequence', i, symbol_count=3))
        calls.append(call('make_sequence', i, version=1))
    for txt in ('ää€€', '点茗abc€', 'abcä' * 10 + '€', 'ｱｲ' * 10 + '€€'):
        for k in (2, 4):
            calls.append(call('make_sequence', txt, symbol_count=k))
        calls.append(call('make_sequence', txt, version=1))
    # a message given in parts that fits one symbol of the requested version (the single-symbol shortcut encodes it like make() does):
    # as a list and as a tuple / generator / list iterator / map object - every part arrives, in order
    for parts, v in ((['HELLO ', 'WORLD ', '2024'], 2), (['id=', 4711, ';ok'], 1), (['12', '34'], 1), (['abc', b'\x00\x01', 'DEF'], 3)):
        calls.append(call('make_sequence', parts, version=v))
        for kind in symobs.CONTAINERS:
            calls.append(symobs.in_container(call('make_sequence', parts, version=v), kind))
    return calls


def exact_sequences(rep, tier, tags):
    """SegnoSA.tla: the Structured Append machine; design run (C08 invariants through the reference decoder) and exact conformance:
    every vector of the design run is executed with make_sequence and all symbol matrices must equal a behaviour of the machine"""
    import json
    from . import props_sym
    cfg = 'SegnoSA_quick.cfg' if tier == 'quick' else 'SegnoSA_thorough.cfg'
    out, st = common.run_tlc('MC_SegnoSA', cfg=cfg, workers=common.NCPU, timeout=6000, xmx='12g')
    rep.add_design('MC_SegnoSA', cfg, out, st, 'Structured Append machine (normalise, prepare, single-symbol shortcut, split by estimate / by count, '
                   'version for the longest chunk, per-symbol boost and encoding): invariants C08_Count, C08_Version, C08_EachValid, C08_Headers, '
                   'C08_Reassembly, C07_SeqMode, C05_SeqLevel, C13_SeqTail evaluated with the reference decoder on every returned sequence')
    if tier == 'thorough':       # no behaviour of the machine gets stuck before an outcome (ENABLED is expensive: the quick constants)
        out2, st2 = common.run_tlc('MC_SegnoSA', cfg='SegnoSA_progress.cfg', workers=common.NCPU, timeout=6000, xmx='12g')
        rep.add_design('MC_SegnoSA', 'SegnoSA_progress.cfg', out2, st2, 'SA_Progress: every non-terminal state of the Structured Append machine has a successor')
    seen = {}
    for v in common.parse_vectors(out):
        seen.setdefault(json.dumps([v['msg'], v['q']], sort_keys=True), v)
    common.use_repo()
    obs = []
    for key, v in sorted(seen.items()):
        q, m = v['q'], v['msg']
        content = bytes(m['bytes']) if m['enc'] == 'l1' else bytes(m['bytes']).decode('utf-8')
        kw = {'boost_error': q['boost']}
        if q['version'] != 99:
            kw['version'] = T.version_name(q['version']) if q['version'] < 1 else q['version']
        if q['count'] != -1:
            kw['symbol_count'] = q['count']
        if q['error'] != '-':
            kw['error'] = q['error']
        if q['mode'] != 'none':
            kw['mode'] = q['mode']
        if q['eci']:
            kw['eci'] = True
        c = call('make_sequence', content, **kw)
        outcome, _, syms = symobs.execute(c, time_limit=300)
        status = 'ok' if outcome['status'] == 'ok' else ('ValueError' if outcome.get('exc') != 'DataOverflowError' and 'ValueError' in outcome.get('mro', [])
                                                         else outcome.get('exc', 'error'))
        obs.append({'_call': c, 'msg': m, 'q': q, 'status': status, 'syms': [{'matrix': s['matrix']} for s in (syms or [])], '_cost': 1})
    rep.evaluations += len(obs)
    verdicts, st = props_sym.validate_all_branches(rep, obs, module='Trace_SegnoSA', tag='segnosa')
    rep.add_trace_stats(st, len(obs))
    n_equal = n_dev = n_refused = n_overfull = 0
    for o in obs:
        branches = verdicts.get(o['tid'], [])
        good = [b for b in branches if not b['fails']]
        if good:
            n_equal += any(b['facts']['equal'] for b in good)
            n_refused += any(b['facts']['st'] == 'done' for b in good)
            n_overfull += all(b['facts']['st'] == 'returned_overfull' for b in good)
            n_dev += all(b['devs'] for b in good)
            rep.keys.add(('XSA', o['q']['mode'], o['q']['version'], o['q']['count'], o['q']['error'], o['q']['eci'], len(o['msg']['bytes'])))
            continue
        b = branches[0] if branches else {'fails': [['SPEC', 'no_verdict']], 'facts': {}}
        mine = sorted(c for (p, c) in b['fails'] if p in tags or p == 'SPEC')
        if any(p in tags for (p, c) in b['fails']) or all(p == 'SPEC' for (p, c) in b['fails']):
            rep.violation({'kind': 'xsa', 'module': 'props_seq', 'call': o['_call'], 'failing_clauses': mine, 'props': sorted(tags), 'all_fails': b['fails']},
                          f"{engine.brief_call(o['_call'])}: differs from every behaviour of SegnoSA.tla; fails {b['fails']}")
        else:
            rep.notes.setdefault('exact_sequence_mismatches_attributed_to_other_properties', []).append(
                {'call': engine.brief_call(o['_call']), 'fails': b['fails']})
    rep.notes['exact_sequences'] = {'vectors': len(obs), 'all_matrices_equal_to_a_specification_behaviour': n_equal, 'refusals_agree': n_refused,
                                    'explained_only_by_Dev_SeqEstimateOnly': n_overfull, 'explained_only_via_a_named_deviation': n_dev}


def run_c08(rep, tier):
    exact_sequences(rep, tier, {'C08', 'C14'})      # make_sequence has no eci parameter: the machine's eci branch is not driven
    calls = gen_calls(tier, common.seed())
    rep.evaluations += len(calls)
    with mp.get_context('fork').Pool(common.NCPU) as pool:
        obs = pool.map(seq_observation, calls, chunksize=max(1, len(calls) // 256))
    ok = [o for o in obs if o['outcome']['status'] == 'ok']
    refused = [o for o in obs if o['outcome']['status'] != 'ok']
    rep.notes['sequences_returned'] = len(ok)
    rep.notes['calls_refused'] = len(refused)
    bad_exc = [o for o in refused if 'ValueError' not in o['outcome'].get('mro', [])]
    for o in bad_exc:
        rep.violation({'kind': 'seq', 'module': 'props_seq', 'call': o['_call'], 'failing_clauses': ['refusal_is_not_a_ValueError'], 'observed': o['outcome']},
                      f"{engine.brief_call(o['_call'])} raised {o['outcome'].get('exc')}: {o['outcome'].get('msg', '')[:80]}")
    # symbol_count = k alone (1 <= k <= 16, at least k characters, nowhere near 16 x version 40): the request must be served
    for o in refused:
        kw = o['_call']['kw']
        if kw.get('symbol_count') is not None and kw.get('version') is None and 1 <= kw['symbol_count'] <= 16 and o['outcome'].get('exc') != 'DataOverflowError' \
                and 'ValueError' in o['outcome'].get('mro', []) and 'not long enough' not in o['outcome'].get('msg', ''):
            rep.violation({'kind': 'seq', 'module': 'props_seq', 'call': o['_call'], 'failing_clauses': ['count_as_requested'], 'observed': o['outcome']},
                          f"{engine.brief_call(o['_call'])} was refused: {o['outcome'].get('msg', '')[:80]}")
    verdicts, st = common.validate_observations(rep.pid, 'Trace_Seq', ok, tag='seq', timeout=3000)
    rep.add_trace_stats(st, len(ok))
    for o in ok:
        v = verdicts[o['tid']]
        fails = sorted(c for (p, c) in v['fails'] if p == 'C08')
        f = v['facts']
        if 'versions' in f:
            rep.keys.add(('Q', f['n'], tuple(f['versions'][:1]), tuple(f['levels'][:1]), str(f['modes'][:1]), o['args']['version'] != 99, o['args']['symbol_count']))
        rep.sample({'call': engine.brief_call(o['_call']), 'symbols': f.get('n'), 'versions': f.get('versions'), 'parity': f.get('parity'),
                    'want_parity': f.get('want_parity'), 'tlc_fails': fails})
        if fails:
            kf = engine.match_known(rep.pid, fails, v.get('devs', []), rep.known)
            if kf:
                rep.known_hit(kf, {'call': engine.brief_call(o['_call']), 'clauses': fails})
            else:
                rep.violation({'kind': 'seq', 'module': 'props_seq', 'call': o['_call'], 'failing_clauses': fails, 'facts': f},
                              f"{engine.brief_call(o['_call'])} -> {f.get('n')} symbols {f.get('versions')}: fails {fails}")
    rep.rule = ('make_sequence with version given: content lengths around k x capacity (k = 1, 2, 3, 16) for 7 content kinds x levels, every '
                'length on versions 1 and 2; with symbol_count 1..16 given: lengths k, k+1, ...; explicit encodings, integers, mixed-codec '
                'texts. TLC decodes every symbol of every sequence and evaluates count / version / header / parity / fit / reassembly; '
                'distinct non-trivial = distinct (symbol count, version, level, modes, request kind)')


def replay(pid, d):
    common.use_repo()
    o = seq_observation(d['call'])
    print('call    :', engine.brief_call(d['call']))
    print('outcome :', o['outcome'], len(o['syms']), 'symbols')
    if d.get('failing_clauses') == ['requested_mode_not_applicable_refused']:
        bad = o['outcome']['status'] == 'ok' or 'ValueError' not in o['outcome'].get('mro', [])
        print('VIOLATION property=%s replay=(this file)' % pid if bad else 'refused with a ValueError, as the inapplicable requested mode demands')
        return 1 if bad else 0
    if o['outcome']['status'] != 'ok':
        bad = 'ValueError' not in o['outcome'].get('mro', []) or d.get('failing_clauses') in (['count_as_requested'], ['sequence_mode_first_applicable'])
        print('VIOLATION property=%s replay=(this file)' % pid if bad else 'refused with a ValueError')
        return 1 if bad else 0
    verdicts, _ = common.validate_observations(pid + '_replay', 'Trace_Seq', [o], shards=1, tag='seq')
    v = verdicts[o['tid']]
    fails = sorted(c for (p, c) in v['fails'] if p == pid)
    print('verdict :', {'failing_clauses': fails, 'facts': v['facts']})
    if not fails:
        return 0
    kf = engine.match_known(pid, fails, v.get('devs', []), common.load_known_findings())
    if kf:
        print(f"KNOWN-FINDING: property={pid} {kf['id']} {kf['what']}")
        return 0
    print(f'VIOLATION property={pid} replay=(this file)')
    return 1


REGISTRY = {'C08': run_c08}
