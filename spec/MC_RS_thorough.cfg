CONSTANTS
  Blocks <- BlocksThorough
  Values = {1, 2, 128, 255}
  MaxErrors = 3
SPECIFICATION Spec
CHECK_DEADLOCK FALSE
INVARIANT Restored
INVARIANT NeverSilent
INVARIANT CleanWhenUntouched
INVARIANT FieldAxioms
