--------------------------------- MODULE Cli ---------------------------------
(***************************************************************************)
(* The command line tool as a front end of the factory functions (C12:     *)
(* "the file written by the command line tool with the corresponding flags *)
(* is byte-identical"; C14: refusals).  segno/cli.py in three steps:       *)
(*                                                                         *)
(*   Parse      argparse: choices / types (a usage error ends the run with *)
(*              exit status 2), --error upper-cased and "-" -> None,       *)
(*              --mode lower-cased, micro = False unless --micro; a Micro  *)
(*              version without --micro turns micro into None              *)
(*   MakeCode   the keyword arguments of make() / make_sequence()          *)
(*              (--seq); the content words are joined with one blank       *)
(*   Emit       ValueError -> message on stderr, exit status 1, no file;   *)
(*              otherwise the document of the symbol(s)                    *)
(*                                                                         *)
(* The state after MakeCode IS the API call the run must be equivalent to: *)
(* every terminal state is exported as a vector <flags, api call>; the     *)
(* harness runs both and TLC compares outcome class, exit status and       *)
(* document (Trace_Cli).                                                   *)
(***************************************************************************)
EXTENDS Integers, Sequences, FiniteSets, TLC, Json

CONSTANTS MaxFlags        \* number of factory flags given at once

VersionCs == {"none", "int", "micro_upper", "micro_lower", "big", "junk"}      \* 5 / M4 / m4 / 41 / x
ErrorCs == {"none", "L", "lower_m", "H", "dash", "bad"}                        \* L / m / H / - / x (not a choice)
ModeCs == {"none", "byte", "upper_numeric", "bad"}                             \* byte / NUMERIC / foo (not a choice)
MicroCs == {"none", "micro", "no_micro"}
PatternCs == {"none", "zero", "two", "nine", "junk"}                           \* 0 (falsy!) / 2 / 9 / x (not an int)
EncCs == {"none", "utf8"}
CountCs == {"none", "two", "junk"}
ContentCs == {"digits", "two_words", "text"}

Default == [version |-> "none", error |-> "none", mode |-> "none", micro |-> "none", pattern |-> "none", boost |-> TRUE, seq |-> FALSE,
            encoding |-> "none", count |-> "none", content |-> "text"]
Fields == {"version", "error", "mode", "micro", "pattern", "boost", "seq", "encoding", "count"}
\* --symbol-count only makes sense together with --seq (and a sequence needs it or a version): the pair counts as one flag
NonDefault(f) == {k \in Fields : f[k] # Default[k]} \ (IF f.seq THEN {"count"} ELSE {})
FlagSets == {f \in [version : VersionCs, error : ErrorCs, mode : ModeCs, micro : MicroCs, pattern : PatternCs, boost : BOOLEAN, seq : BOOLEAN,
                    encoding : EncCs, count : CountCs, content : ContentCs] : Cardinality(NonDefault(f)) <= MaxFlags}

VARIABLES f, pc, parsed, api, out
vars == <<f, pc, parsed, api, out>>
Init == f \in FlagSets /\ pc = "parse" /\ parsed = [x \in {} |-> 0] /\ api = [x \in {} |-> 0] /\ out = "?"

UsageError == f.error = "bad" \/ f.mode = "bad" \/ f.pattern = "junk" \/ f.count = "junk"
IsMicroVersion == f.version \in {"micro_upper", "micro_lower"}
Parse ==
  /\ pc = "parse"
  /\ IF UsageError THEN pc' = "done" /\ out' = "exit2" /\ UNCHANGED <<parsed, api>>
     ELSE /\ parsed' = [version |-> f.version,
                        error |-> CASE f.error = "dash" -> "none" [] f.error = "lower_m" -> "M" [] OTHER -> f.error,
                        mode |-> IF f.mode = "upper_numeric" THEN "numeric" ELSE f.mode,
                        micro |-> IF f.micro = "micro" THEN "true" ELSE IF IsMicroVersion THEN "none" ELSE "false",
                        pattern |-> f.pattern, boost |-> f.boost, seq |-> f.seq, encoding |-> f.encoding, count |-> f.count]
          /\ pc' = "make" /\ UNCHANGED <<api, out>>
  /\ UNCHANGED f
MakeCode ==
  /\ pc = "make"
  /\ api' = IF parsed.seq
            THEN [fn |-> "make_sequence", version |-> parsed.version, error |-> parsed.error, mode |-> parsed.mode, mask |-> parsed.pattern,
                  boost |-> parsed.boost, encoding |-> parsed.encoding, count |-> parsed.count, micro |-> "absent"]
            ELSE [fn |-> "make", version |-> parsed.version, error |-> parsed.error, mode |-> parsed.mode, mask |-> parsed.pattern,
                  boost |-> parsed.boost, encoding |-> parsed.encoding, count |-> "absent", micro |-> parsed.micro]
  /\ pc' = "emit" /\ UNCHANGED <<f, parsed, out>>
Emit == /\ pc = "emit" /\ pc' = "done" /\ out' = "as_api" /\ UNCHANGED <<f, parsed, api>>
Next == Parse \/ MakeCode \/ Emit
Spec == Init /\ [][Next]_vars

(* ------------------------------------------------------------------ design properties *)
\* a Micro QR version is never combined with micro = False by the tool itself (the user would get "version not allowed" for -v M4)
MicroVersionUsable == pc \in {"emit", "done"} /\ out # "exit2" /\ IsMicroVersion /\ ~f.seq => api.micro # "false"
\* --no-micro is the default: without --micro and without a Micro version no Micro QR Code is produced
NoMicroByDefault == pc \in {"emit", "done"} /\ out # "exit2" /\ ~f.seq /\ f.micro # "micro" /\ ~IsMicroVersion => api.micro = "false"
\* "-" means: no error correction level requested
DashIsNone == pc \in {"emit", "done"} /\ out # "exit2" /\ f.error = "dash" => api.error = "none"
\* the sequence factory never receives micro, the symbol factory never receives symbol_count
KeywordsMatchFactory == pc \in {"emit", "done"} /\ out # "exit2" => (api.fn = "make_sequence") = (api.micro = "absent") /\ (api.fn = "make") = (api.count = "absent")
Export == pc = "done" => PrintT(<<"VECTOR", ToJson([flags |-> f, out |-> out, api |-> IF out = "exit2" THEN [fn |-> "none"] ELSE api])>>)
=============================================================================
