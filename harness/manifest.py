"""Generates /verif/MANIFEST.json from one table (python -m harness.manifest)."""
import json
import os
from . import common

TB = ('TLC 1.8.0 + CommunityModules evaluate every clause; trusted: the harness projection from implementation artefacts to '
      'observation JSON (harness/*.py), Python standard library container parsers / codecs named in the evidence file')

CHECKS = {
 'C01': dict(tech='TLA+ reference decoder (spec/Codec.tla) judging recorded make() observations: trace validation with TLC',
             text='Every observed symbol (class-stratified contents x versions x levels x options, incl. every single byte, kanji boundary '
                  'pairs, all ECI encodings, multi-part lists, hanzi) is decoded by the ISO reference decoder written in TLA+ and the '
                  'payload / ECI clauses are evaluated by TLC on the observed state; the design run model-checks spec-encoder -> '
                  'spec-decoder round trips on a small scope, and the pipeline machines Segno.tla / SegnoMP.tla (multi-part, requested modes incl. '
                  'hanzi, ECI) predict the implementation bit for bit: every exported vector is executed and the matrix must equal a behaviour of the '
                  'machine (exact-matrix conformance). Exhaustive only where the evidence says so.', ref='6 C01'),
 'C02': dict(tech='TLA+ geometry/format model (spec/ISOTables.tla, SymCheck!C02Fails) judging recorded symbols with TLC',
             text='All 168 (version, level) pairs (thorough: all 1312 (version, level, mask) triples): every function-pattern module, both '
                  'format copies (BCH word recomputed by polynomial division), both version copies (Golay) and the reported metadata are '
                  'compared by TLC with the values the specification derives from first principles.', ref='6 C02'),
 'C03': dict(tech='TLA+ GF(256)/Reed-Solomon model incl. Berlekamp-Massey decoder (spec/GF256.tla); fault patterns replayed on recorded symbols by TLC',
             text='For all 168 block layouts the codeword sequence read from the observed matrix is de-interleaved by ISO Table 9 and every '
                  'block must have zero syndromes; injected error patterns of weight <= floor(ec/2) per block must be restored exactly by '
                  'the TLA+ bounded-distance decoder; single-codeword errors exhaustively on five layouts.', ref='6 C03'),
 'C06': dict(tech='TLA+ ISO 7.8.3 penalty model (Codec!Penalty/MicroScore/Remask): TLC re-scores all candidate masks of each recorded symbol',
             text='Requested masks: format information and RS-clean unmasking with exactly the requested pattern. Automatic: TLC rebuilds '
                  'all 8 (4) candidates from the observed symbol, scores them with the ISO rules and compares the lowest-numbered optimum.', ref='6 C06'),
 'C13': dict(tech='TLA+ model of terminator/padding (Codec!IsoTail) compared by TLC with the tail of the decoded data bit stream',
             text='Contents constructed from the specification capacity tables so that the terminated stream hits every residue mod 8 and '
                  'every distance 0..12 to capacity; TLC compares the decoded tail with IsoTail clause by clause; the known deviation '
                  '(zero codeword when aligned) is recognised only when the named deviation operator reproduces the tail exactly.', ref='6 C13'),

 'C04': dict(tech='TLA+ decision model (spec/Decide.tla) model-checked with TLC; its terminal states exported as vectors, replayed into make(), observations validated against the model (Trace_Decide)',
             text='TLC checks the operational model of the version search against the declarative C04 invariants on the whole enumerated '
                  'argument space and exports every capacity-boundary vector with the predicted outcome; each vector is executed against '
                  'segno and TLC validates the observation (version from matrix size/format information, DataOverflowError iff predicted). '
                  'Symbol-level clauses (never truncated, smallest for the segmentation used) cover multi-part content.', ref='6 C04'),
 'C05': dict(tech='TLA+ decision model (Decide.tla: Boost action, C05_* invariants) + trace validation of the level read from the format information',
             text='Same vectors as C04 plus the capacity boundary of each level of each version x requested level x boost; TLC compares the '
                  'level found in the format information of the observed matrix with the level the model reaches, and evaluates '
                  'level>=request / no H in Micro / exact level without boosting on random multi-part symbols.', ref='6 C05'),
 'C07': dict(tech='TLA+ byte classification and mode choice (Decide!ClassOfBytes, Prepare action) validated against recorded calls by TLC',
             text='All one-byte inputs, all lead bytes x boundary trail bytes (thorough: all 65 536 two-byte inputs), every requested mode x '
                  'representable or not x version: TLC classifies the bytes, runs the model and compares refusal, the mode indicator read '
                  'from the matrix and the reported mode.', ref='6 C07'),
 'C08': dict(tech='TLA+ Structured Append machine (spec/SegnoSA.tla) model-checked with TLC and bound by exact conformance of every symbol matrix (Trace_SegnoSA); TLA+ reference decoder applied to every symbol of recorded make_sequence results (Trace_Seq)',
             text='Sequences for version-given (lengths around k x capacity, every length on versions 1-2) and symbol_count-given calls over '
                  '7 content kinds: TLC decodes each symbol and checks count, version, QR-only, validity, fit, header position/total, '
                  'parity = XOR of the message bytes, reassembly. The open finding (over-full symbols with a requested version) is accepted '
                  'only when the named deviation Dev_SeqEstimateOnly reproduces the observation exactly.', ref='6 C08'),
 'C09': dict(tech='TLA+ raster machines (spec/Render.tla: PNG un-filtering / sample unpacking / palette, Netpbm, XBM, XPM, text grids) judging recorded files with TLC',
             text='~1 400 files (sizes x borders x scales covering every row-length residue mod 8 x 17 colour kinds x options) are parsed at '
                  'container level by the projection (chunk CRC, inflate) and decoded pixel by pixel in TLA+; every pixel / cell is '
                  'compared with Cell(M, b, y div s, x div s) and the colour the specification derives from the colour argument.', ref='6 C09'),
 'C10': dict(tech='TLA+ pen machine (spec/Vector.tla) replaying the drawing program of recorded SVG / EPS / PDF / PGF documents with TLC',
             text='The drawing operators of each document are tokenised by the projection and replayed by TLC: the bag of unit squares the '
                  'strokes cover (before the document scale, which is its own clause) must equal the dark modules offset by the border, each '
                  'once, inside the page; page box, colours, background, PDF /Length and xref offsets, SVG options are separate clauses.', ref='6 C10'),
 'C11': dict(tech='TLA+ ISO module classification (ISOTables!ClassG) compared by TLC with recorded matrix_iter output and colourful PNG / SVG / PPM documents',
             text='Every module of all 44 symbol sizes (plain and verbose iteration) is compared with the class the specification derives '
                  'from the geometry; colourful documents are decoded (Render / Vector machines) and every module colour compared with the '
                  'option of its type. The single misclassified module (8, size-9) is accepted only via the named deviation.', ref='6 C11'),
 'C12': dict(tech='TLA+ route model (spec/Routes.tla: effective kind / options per route, CLI keyword filtering) exported as vectors; executions validated by TLC (Trace_Routes)',
             text='TLC enumerates kinds x 10 routes x option sets with the reference call each route must agree with; route and reference are '
                  'executed (files, streams, data URIs, svg_inline, svgz, in-process and subprocess CLI) and TLC checks that the reference is '
                  'the one the model prescribes and that the normalised documents are identical; sequence file names / contents, unknown '
                  'extensions and the CLI terminal output (also under different COLUMNS settings) are further observation families; spec/Cli.tla models '
                  'the tool as a front end of the factories (Parse / MakeCode / Emit): for every flag vector the files written must equal those of '
                  'the API call the machine arrives at.', ref='6 C12'),
 'C16': dict(tech='TLA+ payload grammars (spec/Helpers.tla: MeCard/WIFI scanner state machine, vCard content lines, URI grammar, EPC layout); scanner round trip model-checked; recorded payloads validated by TLC',
             text='TLC proves Scan(Build(fields)) = fields and that no value changes the number of fields for all field lists over the '
                  'delimiter / escape alphabet (640 800 lists); the same strings and adversarial ones go through the real make_*_data '
                  'functions and TLC scans / parses the returned payloads (fields exact, one vCard line per value, valid mailto / geo URIs, '
                  'EPC line layout, amount, character set, 331 byte limit); limits must be refused; factory symbols decoded by the C01 decoder.', ref='6 C16'),
 'C14': dict(tech='TLA+ argument models (spec/Args.tla for the factories, spec/SaveArgs.tla for serialisers and command line) exported as vectors; executions validated by TLC',
             text='TLC enumerates combinations of documented argument value classes (canonical / alternative spelling / boundary / malformed) '
                  'with the set of outcomes the documentation allows; each is executed with a time limit; TLC validates the outcome class '
                  '(ok / ValueError / LookupError, nothing else), equality of accepted alternative spellings with the canonical spelling, the '
                  'accepted symbols against the C01-C03 clauses, serialiser refusals per kind, and the exit status / stderr contract of the '
                  'command line tool (in-process and as subprocess).', ref='6 C14'),
 'C15': dict(tech='TLA+ purity / ownership model (spec/Purity.tla) model-checked over all interleavings with TLC and as an inductive invariant with Apalache; TLC-generated schedules replayed with real threads (deterministic baton scheduler); execution logs validated by TLC (Trace_Purity)',
             text='The model (threads x pipeline stages x object ownership) is checked exhaustively for 2 threads / 3 calls (tables constant, '
                  'returned symbols immutable, own writes only, deterministic); the deviation of a shared scratch object is found by TLC '
                  '(negative control). Every call of a 60-call alphabet gets a reference in a fresh interpreter; ordered pairs and longer '
                  'histories, TLC schedules with <= 2 context switches and seeded line-level pre-emptions are executed and every logged step '
                  'is validated by TLC against the model state; soak histories, drop histories and calls after every thread schedule extend the '
                  'histories. The ownership discipline is additionally an inductive invariant checked with Apalache (spec/apalache/PurityInd.tla): '
                  'unbounded in calls and context switches.', ref='6 C15'),
}

NOT_YET = {}


def build():
    checks = []
    for pid in sorted(CHECKS):
        c = CHECKS[pid]
        checks.append({
            'property_id': pid,
            'quick_cmd': f'bin/check {pid} --tier quick',
            'thorough_cmd': f'bin/check {pid} --tier thorough',
            'evidence_file': f'/verif/evidence/{pid}.json',
            'replay_cmd_template': f'bin/check {pid} --replay {{path}}',
            'engine': 'tlc-trace',
            'level_claimed': {'category': 'model_checking', 'text': c['text'], 'design_ref': 'DESIGN.md section ' + c['ref']},
            'level_note': TB,
            'technique': c['tech'],
        })
    props = [json.loads(l)['id'] for l in open(os.path.join(common.VERIF, 'properties.jsonl'))]
    na = [{'property_id': p, 'reason': NOT_YET.get(p, 'check not built yet in this round (planned: decided with the TLA+ specification, see DESIGN.md section 6); not claimed until it runs clean')}
          for p in props if p not in CHECKS]
    m = {
        'version': 1,
        'setup_cmd': 'bin/check --setup',
        'hooks': {'guard': 'HEUER_SEGNO_VERIF',
                  'enable': 'export HEUER_SEGNO_VERIF=1 (bin/check sets it); checks import segno from /repo working tree, nothing is built',
                  'baseline_off_cmd': 'cd /repo && env -u HEUER_SEGNO_VERIF /venv/bin/python -m pytest -ra -q -p no:cacheprovider --timeout=900 --continue-on-collection-errors',
                  'source_commits': [], 'add_only': True},
        'engines': [{'name': 'tlc-trace', 'path': 'bin/check', 'serves_properties': sorted(CHECKS),
                     'kind_free_text': 'explicit TLA+ specification (spec/*.tla) model-checked with TLC; spec->code vectors and code->spec trace validation of recorded observations'}],
        'checks': checks,
        'notes': 'Exit codes of bin/check: 0 held (KNOWN-FINDING lines allowed), 1 violation (VIOLATION lines), 2 machinery failure. '
                 'known_findings.json lists open findings and fixed defects (fix: commits in /repo). '
                 'bin/check --extras [--tier thorough] checks the implementation against the part of the specification that goes beyond the '
                 'listed properties (spec/Objects.tla: QRCode / QRCodeSequence object model); it reports NONCONFORMANCE lines, never a property violation.',
        'not_applicable': na,
    }
    return m


if __name__ == '__main__':
    m = build()
    with open(os.path.join(common.VERIF, 'MANIFEST.json'), 'w') as f:
        json.dump(m, f, indent=1)
    print('MANIFEST.json written:', len(m['checks']), 'checks,', len(m['not_applicable']), 'not applicable')
