CONSTANTS
  MaxFlags = 9
INIT TraceInit
NEXT TraceNext
CHECK_DEADLOCK FALSE
POSTCONDITION AllJudged
