CONSTANTS
  Scope = "trace"
  BVersions = {}
  SmallMaxN = 0
  SmallVersions = {}
  VSels = {}
  Slim = FALSE
  Variants = {}
  PartPool = {}
  MaxParts = 0
  ReqModesMP = {}
  ReqVersionsMP = {}
  ReqLevelsMP = {}
  ReqMicroMP = {}
  ReqEci = {}
  ReqBoostMP = {}
  AllowDevPadMP = TRUE
INIT TraceInit
NEXT TraceNext
CHECK_DEADLOCK FALSE
POSTCONDITION AllJudged
