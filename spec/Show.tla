-------------------------------- MODULE Show --------------------------------
(***************************************************************************)
(* Beyond the property list (DESIGN 12): the temporary-file life cycle of  *)
(* QRCode.show(delete_after, scale, border, dark, light).                  *)
(*                                                                         *)
(* Processes: the caller's thread (pc), the deleter thread (del) and the   *)
(* environment (the viewer started through webbrowser, and anybody else    *)
(* who may remove the file first).  One action per step of the code:       *)
(*                                                                         *)
(*   Create        tempfile.NamedTemporaryFile('wb', suffix='.png',        *)
(*                 delete=False)                                           *)
(*   SaveOk        self.save(f, ...) wrote the PNG                         *)
(*   SaveFail      self.save raised (bad scale / colour / border)          *)
(*   CleanupClose, CleanupUnlink, Raise     the except branch              *)
(*   Dev_CleanupUnlinkRaises   named deviation: unguarded unlink there      *)
(*   Close         f.close()                                               *)
(*   OpenBrowser   webbrowser.open_new_tab(file URL)                       *)
(*   StartDeleter  threading.Thread(target=delete_file).start()            *)
(*   Return                                                                *)
(*   Tick          the deleter sleeps (time passes)                        *)
(*   Unlink        os.unlink(name); OSError is swallowed                   *)
(*   EnvDelete     somebody else removes the file                          *)
(***************************************************************************)
EXTENDS Integers, Sequences, FiniteSets, TLC

CONSTANTS MaxDelay          \* delays 0..MaxDelay are explored; NoDelete stands for delete_after=None
NoDelete == 0 - 1

VARIABLES arg,      \* [delay, saveok]: the call
          pc,       \* caller: "start","created","saved","failed","closed","shown","armed","cleanclosed","cleanunlinked","returned","raised"
          file,     \* "absent","empty","written","deleted"     (what the path holds)
          handle,   \* "none","open","closed"                   (the caller's file object)
          browser,  \* "idle" or the file state the viewer was pointed at
          del,      \* deleter thread: "none","sleeping","done"
          slept,    \* time the deleter has slept
          unlinks   \* who removed the file: subset of {"cleanup","deleter","env"}
vars == <<arg, pc, file, handle, browser, del, slept, unlinks>>

Args == [delay : {NoDelete} \cup (0..MaxDelay), saveok : BOOLEAN]
Init == /\ arg \in Args /\ pc = "start" /\ file = "absent" /\ handle = "none" /\ browser = "idle"
        /\ del = "none" /\ slept = 0 /\ unlinks = {}

Create == /\ pc = "start" /\ pc' = "created" /\ file' = "empty" /\ handle' = "open"
          /\ UNCHANGED <<arg, browser, del, slept, unlinks>>
SaveOk == /\ pc = "created" /\ arg.saveok /\ pc' = "saved"
          /\ file' = (IF file = "empty" THEN "written" ELSE file)      \* an unlinked path stays unlinked
          /\ UNCHANGED <<arg, handle, browser, del, slept, unlinks>>
SaveFail == /\ pc = "created" /\ ~arg.saveok /\ pc' = "failed"
            /\ UNCHANGED <<arg, file, handle, browser, del, slept, unlinks>>
CleanupClose == /\ pc = "failed" /\ pc' = "cleanclosed" /\ handle' = "closed"
                /\ UNCHANGED <<arg, file, browser, del, slept, unlinks>>
CleanupUnlink == /\ pc = "cleanclosed" /\ file \in {"empty", "written"} /\ pc' = "cleanunlinked"
                 /\ file' = "deleted" /\ unlinks' = unlinks \cup {"cleanup"}
                 /\ UNCHANGED <<arg, handle, browser, del, slept>>
\* Deviation of the code, named: the unlink of the except branch is not guarded (the deleter's is).  When somebody else removed
\* the file between f.close() and os.unlink(), FileNotFoundError replaces the ValueError of the failed save.
Dev_CleanupUnlinkRaises == /\ pc = "cleanclosed" /\ file = "deleted" /\ pc' = "raised_os"
                           /\ UNCHANGED <<arg, file, handle, browser, del, slept, unlinks>>
Raise == /\ pc = "cleanunlinked" /\ pc' = "raised" /\ UNCHANGED <<arg, file, handle, browser, del, slept, unlinks>>
Close == /\ pc = "saved" /\ pc' = "closed" /\ handle' = "closed"
         /\ UNCHANGED <<arg, file, browser, del, slept, unlinks>>
OpenBrowser == /\ pc = "closed" /\ pc' = "shown" /\ browser' = file
               /\ UNCHANGED <<arg, file, handle, del, slept, unlinks>>
StartDeleter == /\ pc = "shown" /\ arg.delay # NoDelete /\ pc' = "armed" /\ del' = "sleeping"
                /\ UNCHANGED <<arg, file, handle, browser, slept, unlinks>>
Return == /\ \/ pc = "armed"
             \/ pc = "shown" /\ arg.delay = NoDelete
          /\ pc' = "returned" /\ UNCHANGED <<arg, file, handle, browser, del, slept, unlinks>>
Tick == /\ del = "sleeping" /\ slept < arg.delay /\ slept' = slept + 1
        /\ UNCHANGED <<arg, pc, file, handle, browser, del, unlinks>>
Unlink == /\ del = "sleeping" /\ slept = arg.delay /\ del' = "done"
          /\ IF file \in {"empty", "written"} THEN file' = "deleted" /\ unlinks' = unlinks \cup {"deleter"}
             ELSE UNCHANGED <<file, unlinks>>                          \* OSError swallowed
          /\ UNCHANGED <<arg, pc, handle, browser, slept>>
EnvDelete == /\ file \in {"empty", "written"} /\ handle = "closed"     \* (an open handle can be unlinked too on POSIX; not needed here)
             /\ file' = "deleted" /\ unlinks' = unlinks \cup {"env"}
             /\ UNCHANGED <<arg, pc, handle, browser, del, slept>>

Caller == Create \/ SaveOk \/ SaveFail \/ CleanupClose \/ CleanupUnlink \/ Dev_CleanupUnlinkRaises \/ Raise \/ Close \/ OpenBrowser \/ StartDeleter \/ Return
Deleter == Tick \/ Unlink
Next == Caller \/ Deleter \/ EnvDelete
Spec == Init /\ [][Next]_vars /\ WF_vars(Caller) /\ WF_vars(Deleter)

(* ------------------------------------------------------------------ properties *)
TypeOK == /\ pc \in {"start", "created", "saved", "failed", "closed", "shown", "armed", "cleanclosed", "cleanunlinked", "returned", "raised", "raised_os"}
          /\ file \in {"absent", "empty", "written", "deleted"} /\ handle \in {"none", "open", "closed"}
          /\ browser \in {"idle", "absent", "empty", "written", "deleted"} /\ del \in {"none", "sleeping", "done"}
          /\ slept \in 0..MaxDelay /\ unlinks \subseteq {"cleanup", "deleter", "env"}
\* the viewer is never pointed at a file that is still being written: complete and closed, or already removed by somebody else
ViewerSeesCompleteFile == browser \in {"idle", "written", "deleted"} /\ (browser # "idle" => handle = "closed")
ViewerOnlyAfterEnvDelete == browser = "deleted" => "env" \in unlinks
\* a failing save leaves nothing behind: no file, no viewer, no thread, the handle closed
NothingLeftAfterFailure == pc \in {"raised", "raised_os"} => file = "deleted" /\ browser = "idle" /\ del = "none" /\ handle = "closed"
\* the library removes the file only after the whole delay (or while cleaning up after a failure)
NotDeletedEarly == "deleter" \in unlinks => slept = arg.delay /\ arg.delay # NoDelete
NoDeleterWithoutDelay == arg.delay = NoDelete => del = "none" /\ "deleter" \notin unlinks
CleanupOnlyOnFailure == "cleanup" \in unlinks => ~arg.saveok
\* the caller never waits for the delay: Return does not depend on the deleter
ReturnDoesNotWait == [][pc' = "returned" /\ pc # "returned" => del' = del /\ slept' = slept]_vars
\* the handle is closed on every path that ends
HandleClosedAtEnd == pc \in {"returned", "raised", "raised_os"} => handle = "closed"
\* liveness: the call ends; with a delay the file is eventually gone, without one it stays unless somebody else removes it
Terminates == <>(pc \in {"returned", "raised", "raised_os"})
\* the deviation needs the environment: without EnvDelete a failing save always ends in the ValueError
DeviationNeedsEnv == pc = "raised_os" => "env" \in unlinks
EventuallyDeleted == (arg.delay # NoDelete /\ arg.saveok) => <>(file = "deleted")
KeptWithoutDelay == [](arg.delay = NoDelete /\ arg.saveok /\ pc = "returned" /\ "env" \notin unlinks => file = "written")
=============================================================================
