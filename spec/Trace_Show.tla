----------------------------- MODULE Trace_Show -----------------------------
(* Code -> spec for Show.tla.  One observation = one call of QRCode.show() with the events the harness recorded at the patched
   seams (tempfile.NamedTemporaryFile, the file object's close, QRCode.save, webbrowser.open_new_tab, threading.Thread.start,
   time.sleep, os.unlink) in the order they happened (one lock, one list), every event with the fields the action binds:
     Create(ok: suffix '.png', mode 'wb', delete=False)   SaveOk / SaveFail   Close   OpenBrowser(st: what the path held when
     the viewer was started, compared byte for byte with save(kind='png') of the same options)   StartDeleter   Sleep(d)
     Unlink(who: main / deleter)   EnvDelete (the harness removes the file, as a viewer or a user may)   Return / Raise
   The trace machine takes the specification's own actions; Sleep(d) is d Ticks in one step.  Clauses:
     is_a_behaviour      every event was taken by the action of that name (the first event that could not be taken is reported)
     create_args         the temporary file is a '.png' opened 'wb' that is not deleted on close
     final_file          what the path holds after the deleter thread has ended is what the machine says
     ended               the machine is in a final state: returned / raised, and the deleter done if there is one              *)
EXTENDS Show, Json, IOUtils, TLCExt
Obs == JsonDeserialize(IOEnv.TRACE_FILE)
N == Len(Obs)
VARIABLES tid, l, judged
tvars == <<tid, l, judged>>
Ev == Obs[tid].events
TraceInit == /\ tid \in 1..N /\ l = 1 /\ judged = FALSE
             /\ arg = [delay |-> Obs[tid].delay, saveok |-> Obs[tid].saveok]
             /\ pc = "start" /\ file = "absent" /\ handle = "none" /\ browser = "idle" /\ del = "none" /\ slept = 0 /\ unlinks = {}
IsEvent(e) == ~judged /\ l <= Len(Ev) /\ Ev[l].e = e /\ l' = l + 1 /\ UNCHANGED <<tid, judged>>
SleepAll == /\ del = "sleeping" /\ Ev[l].d \in 0..MaxDelay /\ slept + Ev[l].d <= arg.delay /\ slept' = slept + Ev[l].d
            /\ UNCHANGED <<arg, pc, file, handle, browser, del, unlinks>>
TraceStep ==
  \/ IsEvent("Create") /\ Create
  \/ IsEvent("SaveOk") /\ SaveOk /\ file' = Ev[l].st
  \/ IsEvent("SaveFail") /\ SaveFail
  \/ IsEvent("Close") /\ (Close \/ CleanupClose)
  \/ IsEvent("OpenBrowser") /\ OpenBrowser /\ browser' = Ev[l].st
  \/ IsEvent("StartDeleter") /\ StartDeleter
  \/ IsEvent("Sleep") /\ SleepAll
  \/ IsEvent("Unlink") /\ (IF Ev[l].who = "deleter" THEN Unlink ELSE CleanupUnlink)
  \/ IsEvent("UnlinkFailed") /\ Ev[l].who = "main" /\ pc = "cleanclosed" /\ file = "deleted" /\ UNCHANGED vars   \* the attempt; RaiseOS follows
  \/ IsEvent("EnvDelete") /\ EnvDelete
  \/ IsEvent("Return") /\ Return
  \/ IsEvent("Raise") /\ Raise
  \/ IsEvent("RaiseOS") /\ Dev_CleanupUnlinkRaises
Judge == /\ ~judged /\ ~ENABLED TraceStep /\ judged' = TRUE /\ UNCHANGED <<vars, tid, l>>
         /\ LET o == Obs[tid]
                fails == {c \in {"is_a_behaviour", "create_args", "final_file", "ended"} :
                            CASE c = "is_a_behaviour" -> l <= Len(Ev)
                              [] c = "create_args" -> \E k \in 1..Len(Ev) : Ev[k].e = "Create" /\ Ev[k].st # "png,wb,keep"
                              [] c = "final_file" -> l > Len(Ev) /\ o.final # file
                              [] c = "ended" -> l > Len(Ev) /\ ~(pc \in {"returned", "raised", "raised_os"} /\ del \in {"none", "done"}
                                                                 /\ (pc = "returned" /\ arg.delay # NoDelete => del = "done"))}
            IN PrintT(<<"VERDICT", ToJson([tid |-> o.tid, fails |-> {<<"show", c>> : c \in fails}, devs |-> IF pc = "raised_os" THEN {"Dev_CleanupUnlinkRaises"} ELSE {},
                                            facts |-> [consumed |-> l - 1, events |-> Len(Ev), pc |-> pc, file |-> file,
                                                       stuck_at |-> IF l <= Len(Ev) THEN Ev[l].e ELSE "-"]])>>)
TraceNext == (TraceStep /\ UNCHANGED <<>>) \/ Judge
\* the invariants of Show.tla are evaluated in every state of every observed call
AllJudged == TLCGet("distinct") >= 2 * N
=============================================================================
