CONSTANTS
  Scope = "trace"
  BVersions = {}
  SmallMaxN = 0
  SmallVersions = {}
  VSels = {}
  Variants = {}
INIT TraceInit
NEXT TraceNext
CHECK_DEADLOCK FALSE
POSTCONDITION AllJudged
