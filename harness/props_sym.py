"""Checks decided on single symbol observations: C01, C02, C03, C06, C13."""
from . import common, symobs, gen, engine
from . import tables as T
from .symobs import call

ALLV = list(range(-3, 41))
QR_LEVELS = ('L', 'M', 'Q', 'H')

ECI_ENCODINGS = ['cp437', 'iso-8859-1', 'iso-8859-2', 'iso-8859-3', 'iso-8859-4', 'iso-8859-5', 'iso-8859-6', 'iso-8859-7',
                 'iso-8859-8', 'iso-8859-9', 'iso-8859-10', 'iso-8859-11', 'iso-8859-13', 'iso-8859-14', 'iso-8859-15',
                 'iso-8859-16', 'shift_jis', 'cp1250', 'cp1251', 'cp1252', 'cp1256', 'utf-16-be', 'utf-8', 'ascii', 'big5',
                 'gb2312', 'euc_kr', 'gbk', 'gb18030']


def kw_for(v, e, **extra):
    kw = {'version': T.version_name(v), 'boost_error': False}
    if e != '-':
        kw['error'] = e
    kw.update(extra)
    return kw


def modes_of(v, hanzi=True):
    return [m for m in T.MODES if T.ccbits(v, m) >= 0 and (hanzi or m != 'hanzi')]


def content_call(r, v, e, mode, n, api='make', **extra):
    c = gen.content_for_mode(r, mode, n)
    kw = kw_for(v, e, **extra)
    if mode == 'hanzi':
        kw['mode'] = 'hanzi'
    return call(api, c, **kw)


def text_for_encoding(r, enc, n=6):
    """Text that is encodable in `enc` and (if possible) not in latin-1."""
    samples = {'shift_jis': 'ｱｲabc点', 'big5': '中文abc', 'gb2312': '中文abc', 'gbk': '中文abc', 'gb18030': '中文abc€',
               'euc_kr': '한국어abc', 'utf-16-be': 'aä€中', 'utf-8': 'aä€中😀', 'ascii': 'plain ascii', 'iso-8859-1': 'aäöü'}
    if enc in samples:
        return samples[enc]
    chars = []
    for b in range(0xa1, 0x100):
        try:
            ch = bytes([b]).decode(enc)
        except UnicodeDecodeError:
            continue
        if ch.encode(enc) == bytes([b]):
            chars.append(ch)
    return 'a' + ''.join(r.choice(chars) for _ in range(n))


# =============================================================================================== C01
def gen_c01(tier, seed):
    r = gen.rng(seed, 'C01')
    calls = []
    add = calls.append
    thorough = tier == 'thorough'
    # (a) every version (thorough: every version x level x mode) with a random fill
    for v in ALLV:
        for e in (T.levels_of(v) if thorough else [r.choice(T.levels_of(v))]):
            for mode in (modes_of(v) if thorough else [r.choice(modes_of(v))]):
                nmax = T.max_chars(v, e, mode)
                if nmax < 1:
                    continue
                add(content_call(r, v, e, mode, r.randint(max(1, nmax // 2), nmax)))
    # (b) every (mode, character count range) with short lengths and the capacity boundary
    for v in (-3, -2, -1, 0, 1, 9, 10, 26, 27, 40):
        for mode in modes_of(v):
            lv = T.levels_of(v)
            for n in (1, 2, 3, 4, 5, 6, 7):
                e = r.choice(lv)
                if T.max_chars(v, e, mode) >= n:
                    add(content_call(r, v, e, mode, n))
            e = lv[-1] if v < 27 or thorough else lv[-1]
            nmax = T.max_chars(v, e, mode)
            for n in ((nmax, nmax - 1) if (v < 40 or thorough) else (nmax,)):
                if n >= 1:
                    add(content_call(r, v, e, mode, n))
    # (c) every encoding of the ECI table, eci on / off, automatic version
    for enc in ECI_ENCODINGS:
        txt = text_for_encoding(r, enc)
        for eci in (True, False):
            add(call('make_qr', txt, encoding=enc, eci=eci))
            add(call('make_qr', txt.encode(enc), encoding=enc, eci=eci))
    # a requested encoding is used even when the text is plain ASCII (digits, upper-case, lower-case): the bytes of 'AB' in UTF-16 are not b'AB';
    # every encoding of the table, and codecs without an ECI number that are no ASCII supersets (EBCDIC, UTF-16-LE, UTF-32)
    for enc in ECI_ENCODINGS + ['utf-16-le', 'utf-32-be', 'cp037', 'cp500', 'utf-16']:
        for txt in ('AB', '12', 'plain text'):
            for kw in ({'eci': True}, {'eci': False}, {'eci': False, 'micro': None}):
                if kw['eci'] and enc not in ECI_ENCODINGS:
                    continue
                add(call('make' if 'micro' in kw else 'make_qr', txt, encoding=enc, **kw))
        add(call('make', [('AB', None, enc), ('12', None, enc)], micro=False))
    # incl. characters that cp932 / vendor extensions can encode but JIS X 0208 Shift JIS cannot (must fall back to UTF-8)
    for txt in ('aä', 'ｱｲ', '€uro', 'abc', '点茗', '123', '①②③', '㈱髙', 'a～b', '①', '\uff11\uff12\uff13', '\u0661\u0662\u0663', '\u00b2\u00b3', '1\uff12', '\uff21\uff22'):
        for eci in (True, False):
            for micro in (None, False):
                add(call('make', txt, eci=eci, micro=micro))
    # (d) multi-part content: equal and different modes, short final groups, different encodings
    lists = [['12', '3'], ['1', '2'], ['123', '45', '6'], ['A', 'B'], ['ABC', 'D'], ['AB', 'CD'], ['abc', '123'], ['123', 'abc'],
             [gen.digits(r, 7), gen.alnum(r, 5), gen.latin1(r, 4)], [b'\x01', 'x'], ['ä', '€'], ['€', 'ä'], ['€', '€'],
             ['点', '茗'], ['点茗', 'abc'], [1, 2], [12, 'AB'], ['a', b'\xff\x00', 'Z9'], ['12', '34', 'AB', 'cd', '56']]
    for i, lst in enumerate(lists):
        for j, kw in enumerate(({}, {'micro': False}, {'eci': True, 'micro': False}, {'boost_error': False, 'micro': False, 'error': 'H'})):
            add(call('make', lst, **kw))
            # the parts handed over as a tuple / generator / list iterator / map object: every part arrives, in order, none twice
            add(symobs.in_container(call('make', lst, **kw), symobs.CONTAINERS[(i + j) % 4]))
    for kind in symobs.CONTAINERS:
        add(symobs.in_container(call('make_qr', ['id=', 4711, ';ok']), kind))
        add(symobs.in_container(call('make', ['12', '34', '5']), kind))
        add(symobs.in_container(call('make_micro', ['1', '2']), kind))
        add(symobs.in_container(call('make', ['single part']), kind))
    # a requested mode for the whole call together with parts that override it: the override also decides the encoding policy of the part
    # (global hanzi = GB2312 for the hanzi parts only; a byte part without encoding is ISO-8859-1 / Shift JIS / UTF-8 as always)
    for txt in ('\xe9', 'abc\xe4', '\u4e2d\u6587', '\u4e66', '\xc4\u20ac', 'plain'):
        add(call('make', [(txt, 4), '\u4e66\u8bfb'], mode='hanzi'))
        add(call('make_qr', [('\u4e66\u8bfb', 13), (txt, 4)], mode='hanzi'))
        add(call('make', [(txt, 4)], mode='hanzi', micro=False))
        add(call('make', [(txt, 4), ('12', 1)], mode='byte'))
        add(call('make', [('12', 1), (txt, None)], mode='byte', micro=False))
    # falsy-looking contents are contents: 0, '0', a NUL byte, a blank
    for c in (0, '0', b'0', b'\x00', ' ', [0, 'A'], ['0', 0], [0], 10 ** 40, '00', b'\x00\x00'):
        for kw in ({}, {'micro': False}, {'error': 'M'}, {'version': 1, 'mask': 0}, {'version': 'M2', 'mask': 0} if not isinstance(c, list) and c not in (b'\x00', b'\x00\x00', ' ', 10 ** 40) else {'mask': 0}):
            add(call('make', c, **kw))
    if thorough:
        for _ in range(300):
            k = r.randint(2, 5)
            lst = [gen.content_for_mode(r, r.choice(('numeric', 'alphanumeric', 'byte', 'kanji')), r.randint(1, 9)) for _ in range(k)]
            add(call('make', lst, micro=r.choice((None, False)), eci=False))
            add(call('make_qr', lst, eci=True))
    # pairs / triples of active options (requested mask x boosting x ECI x requested version / mode / level x micro)
    for c in gen.option_combination_calls(call):
        add(c)
    # (d') ECI headers at the capacity boundaries (sizing = what is written), per-part encodings
    for c in gen.eci_boundary_calls(call, not thorough):
        add(c)
    for c in gen.multipart_boundary_calls(call, not thorough):
        add(c)
    # (d'') content that ends in a line feed / carriage return / NUL (regular expressions with $ instead of \\Z accept a trailing \\n)
    for base in ('123', 'AB', 'abc', '\u70b9\u8317', gen.kanji(r, 5), gen.digits(r, 8), gen.alnum(r, 7)):
        for tail in ('\n', '\r', '\r\n', '\x00', '\n\n', ' '):
            for kw in ({}, {'micro': False}):
                add(call('make', base + tail, **kw))
                try:
                    add(call('make', (base + tail).encode('shift_jis'), **kw))
                except UnicodeError:
                    pass
    for m, base in (('numeric', '123'), ('alphanumeric', 'AB1'), ('kanji', '\u70b9\u8317'), ('hanzi', '\u4e66\u8bfb')):
        for tail in ('\n', '\r', '\x00'):
            add(call('make', base + tail, mode=m))
            add(call('make', base + tail, mode=m, micro=False))
    # (d''') every cell of the capacity table: one character more than (v, e) holds (the symbol must be a larger one and decode completely)
    for v in ALLV:
        for i, e in enumerate(T.levels_of(v)):
            ms = [m for m in ('byte', 'numeric', 'alphanumeric', 'kanji') if T.ccbits(v, m) >= 0]
            for mode in (ms if thorough else [ms[(v + i) % len(ms)]]):
                n = T.max_chars(v, e, mode) + 1
                kw = {'error': e, 'boost_error': False} if e != '-' else {}
                if v < 1:
                    kw['micro'] = None
                else:
                    kw['micro'] = False
                add(call('make', gen.content_for_mode(r, mode, n), **kw))
    # (d'''') a little more than the requested version and level hold: refused - and if a symbol is returned nevertheless, it is judged
    for v in ((-2, -1, 0, 1, 2, 3, 10) if not thorough else ALLV):
        for e in T.levels_of(v):
            for mode in ('byte', 'numeric', 'alphanumeric'):
                if T.ccbits(v, mode) < 0:
                    continue
                for d in (1, 2, 3):
                    n = T.max_chars(v, e, mode) + d
                    kw = {'version': T.version_name(v), 'boost_error': r.choice((True, False))}
                    if e != '-':
                        kw['error'] = e
                    add(call('make', gen.content_for_mode(r, mode, n), **kw))
    # (e) hanzi
    for n in list(range(1, 13)) + [20, 50]:
        for e in QR_LEVELS if thorough else ('L', 'Q'):
            add(call('make', gen.hanzi(r, n), mode='hanzi', error=e, boost_error=r.choice((True, False))))
    # hanzi boundary code points given as bytes (A1A1, AAFE, B0A1, FAFE and neighbours of the second-byte range)
    for pair in (b'\xa1\xa1', b'\xaa\xfe', b'\xb0\xa1', b'\xfa\xfe', b'\xa9\xa1\xb0\xfe', b'\xd7\xf9\xd8\xa1'):
        add(call('make', pair, mode='hanzi'))
        add(call('make', pair * 3, mode='hanzi', error='M', boost_error=False))
    # (f) integers
    for i in (0, 7, 12, 123, 1234, 1234567, 10 ** 20 + 7, int(gen.digits(r, 40)) + 10 ** 39):
        add(call('make', i))
        add(call('make_qr', i, error='Q'))
    # (g) byte strings: every single byte; kanji-like pairs at the lead / trail byte boundaries; NULs
    for b in range(256):
        add(call('make', bytes([b])))
    leads = (0x80, 0x81, 0x82, 0x9f, 0xa0, 0xdf, 0xe0, 0xea, 0xeb, 0xec)
    trails = (0x00, 0x3f, 0x40, 0x7e, 0x7f, 0x80, 0xbf, 0xc0, 0xfc, 0xfd, 0xff)
    for hi in leads:
        for lo in trails:
            add(call('make', bytes([hi, lo])))
            if thorough:
                add(call('make', bytes([hi, lo, hi, lo]), micro=False))
    for bs in (b'\x00', b'\x00\x00', b'a\x00b', bytes(range(256)), b'\xff' * 17):
        add(call('make', bs))
    # (h) option combinations on a handful of contents
    for c in ('1234567', 'HELLO WORLD', 'Hello World', '点茗', 'ÿ'):
        for micro in (None, True, False):
            for boost in (True, False):
                for mask in (None, 0, 3):
                    add(call('make', c, micro=micro, boost_error=boost, mask=mask))
        add(call('make_micro', c))
        add(call('make_qr', c, eci=True))
    n_extra = 3000 if thorough else 0
    for _ in range(n_extra):
        v = r.choice(ALLV[:12])
        e = r.choice(T.levels_of(v))
        mode = r.choice(modes_of(v))
        nmax = T.max_chars(v, e, mode)
        if nmax >= 1:
            add(content_call(r, v, e, mode, r.randint(1, nmax), mask=r.choice((None, 0, 1, 2, 3))))
    return calls


def key_c01(o, v):
    f = v['facts']
    if 'v' not in f:
        return None
    return ('C01', f['v'], f['level'], tuple(f['modes']), tuple(min(c, 9) for c in f['counts']), o['exp']['eci'])


def sample_sym(o, v):
    return {'call': engine.brief_call(o['_call']), 'observed': {k: o['res'][k] for k in ('version', 'error', 'mask', 'mode')},
            'tlc_verdict': {'fails': v['fails'], 'devs': v['devs'],
                            'facts': {k: x for k, x in v['facts'].items() if k in ('v', 'level', 'mask', 'modes', 'counts', 'endp', 'cap')}}}


def note_refusals(rep, obs):
    refused = [o for o in obs if 'res' not in o]
    rep.notes['calls_refused_by_implementation'] = len(refused)
    # running out of memory / recursion depth / time on a small request is not a refusal: no symbol was produced for a valid input
    for o in refused:
        if o['outcome'].get('exc') in ('MemoryError', 'RecursionError'):      # (a time-out is inconclusive under load: not judged)
            rep.violation({'call': o['_call'], 'failing_clauses': ['resource_exhaustion'], 'props': o.get('props', []), 'observed': o['outcome']},
                          f"{engine.brief_call(o['_call'])} ended with {o['outcome'].get('exc')} (no symbol for a valid input)")
    if refused:
        rep.notes['refusal_examples'] = [{'call': engine.brief_call(o['_call']), 'outcome': o['outcome']} for o in refused[:5]]
    return refused


def exact_matrix_part(rep, tier, tags):
    """Design run of the pipeline state machine Segno.tla (spec encoder -> spec decoder on a small scope) and exact-matrix
    conformance: every exported argument vector is executed and Trace_Segno re-runs the machine on the observation."""
    import json
    cfg = 'Segno_q5.cfg' if tier == 'quick' else 'Segno_thorough.cfg'
    out, st = common.run_tlc('MC_Segno', cfg=cfg, workers=common.NCPU, timeout=3000, xmx='12g')
    rep.add_design('MC_Segno', cfg, out, st, 'pipeline state machine on all contents of length <= 2 over a class-boundary alphabet: invariants C01_RoundTrip, '
                   'C02_Geometry, C03_Blocks, C06_Mask, C07_ModeInSymbol, C13_Tail, Dev_Recognised (reference decoder applied to the reference encoder)')
    vecs = common.parse_vectors(out)
    seen = {}
    for v in vecs:
        a = v['args']
        key = (tuple(v['content']), a['version'], a['error'], a['micro'], a['boost'], v['maskreq'])
        seen.setdefault(key, v)
    segno = common.use_repo()
    obs = []
    for key, v in sorted(seen.items()):
        content, version, error, micro, boost, maskreq = key
        kw = {'boost_error': boost}
        if version != 99:
            kw['version'] = T.version_name(version)
        if error != '-':
            kw['error'] = error
        if micro != 'none':
            kw['micro'] = micro == 'yes'
        if maskreq >= 0:
            kw['mask'] = maskreq
        c = call('make', bytes(content), **kw)
        outcome, res, _ = symobs.execute(c)
        obs.append({'_call': c, 'content': list(content), 'version': version, 'error': error, 'micro': micro, 'boost': boost, 'maskreq': maskreq,
                    'status': outcome['status'] if outcome['status'] == 'ok' else ('ValueError' if 'ValueError' in outcome.get('mro', []) else outcome.get('exc', 'error')),
                    'matrix': res['matrix'] if res else [], '_cost': 1})
    rep.evaluations += len(obs)
    # one observation may have several behaviours (with / without a deviation action): collect all verdict lines
    wd = common.workdir(rep.pid)
    verdicts, st = validate_all_branches(rep, obs)
    rep.add_trace_stats(st, len(obs))
    n_equal = n_dev = 0
    for o in obs:
        branches = verdicts.get(o['tid'], [])
        good = [b for b in branches if not b['fails']]
        if good:
            n_equal += 1
            if all(b['facts']['dev'] for b in good):
                n_dev += 1
                kf = engine.match_known('C13', ['pads'], ['Dev_PadBitsWhenAligned'], rep.known)
                if kf and rep.pid == 'C13':
                    rep.known_hit(kf, {'call': engine.brief_call(o['_call'])})
            rep.keys.add(('X', tuple(o['content']), o['version'], o['error'], o['micro'], o['maskreq']))
            continue
        # no behaviour of the specification produces the observed matrix: attribute to the properties whose clauses fail
        b = branches[0] if branches else {'fails': [['SPEC', 'no_verdict']], 'facts': {}}
        mine = sorted(c for (p, c) in b['fails'] if p in tags)
        if mine:
            rep.violation({'call': o['_call'], 'failing_clauses': mine, 'props': sorted(tags), 'all_fails': b['fails']},
                          f"{engine.brief_call(o['_call'])}: the matrix differs from every behaviour of Segno.tla; fails {b['fails']}")
        else:
            rep.notes.setdefault('exact_matrix_mismatches_attributed_to_other_properties', []).append(
                {'call': engine.brief_call(o['_call']), 'fails': b['fails']})
    rep.notes['exact_matrix'] = {'vectors': len(obs), 'matrix_equal_to_a_specification_behaviour': n_equal, 'of_which_only_via_Dev_PadBitsWhenAligned': n_dev}


def validate_all_branches(rep, obs, module='Trace_Segno', tag='segno'):
    """like common.validate_observations, but keeps every verdict line per observation (Trace_Segno branches on deviations)"""
    import json
    import os
    from concurrent.futures import ThreadPoolExecutor
    for i, o in enumerate(obs):
        o['tid'] = i + 1
    wd = common.workdir(rep.pid)
    shards = max(1, min(common.NCPU, len(obs)))
    buckets = [obs[k::shards] for k in range(shards)]

    def run(k):
        path = os.path.join(wd, f'{tag}_{k}.json')
        with open(path, 'w') as f:
            json.dump([{kk: vv for kk, vv in o.items() if not kk.startswith('_')} for o in buckets[k]], f, separators=(',', ':'))
        out, st = common.run_tlc(module, env={'TRACE_FILE': path}, workers=1, metadir=os.path.join(wd, f'meta_{tag}_{k}'), timeout=3000)
        if not common.tlc_ok(out, st):
            with open(os.path.join(wd, f'segno_{k}.out'), 'w') as f:
                f.write(out)
            raise common.MachineryError(f'TLC failed on Trace_Segno shard {k}; see {wd}/segno_{k}.out\n' + out[-2000:])
        vs = [common._unescape(m) for m in common._VERDICT_RE.findall(out)]
        by = {}
        for v in vs:
            lst = by.setdefault(v['tid'], [])
            if v not in lst:
                lst.append(v)
        if set(by) != {o['tid'] for o in buckets[k]}:
            raise common.MachineryError(f'{module} shard {k}: verdicts for {len(by)} of {len(buckets[k])} observations')
        return by, st
    allv = {}
    stats = {'states': 0, 'transitions': 0, 'wall_s': 0.0, 'runs': len(buckets)}
    with ThreadPoolExecutor(max_workers=len(buckets)) as ex:
        for by, st in ex.map(run, range(len(buckets))):
            allv.update(by)
            stats['states'] += st['states']
            stats['transitions'] += st['transitions']
    return allv, stats


def exact_matrix_multipart(rep, tier, tags):
    """SegnoMP.tla: the pipeline machine for multi-part content, requested modes and ECI; design run + exact-matrix conformance"""
    vecs = []
    for cfg in ('SegnoMP_quick.cfg' if tier == 'quick' else 'SegnoMP_thorough.cfg', 'SegnoMP_hanzi.cfg'):
        out, st = common.run_tlc('MC_SegnoMP', cfg=cfg, workers=common.NCPU, timeout=3000, xmx='12g')
        rep.add_design('MC_SegnoMP', cfg, out, st, 'pipeline machine for multi-part content / requested mode (incl. hanzi) / ECI: invariants C01_PayloadMP, '
                       'C01_EciMP, C04_SmallestMP, C05_LevelMP, C13_TailMP evaluated with the reference decoder')
        vecs += common.parse_vectors(out)
    seen = {}
    for v in vecs:
        a = v['args']
        key = (json_key(v['parts']), a['mode'], a['version'], a['error'], a['micro'], a['eci'], a['boost'])
        seen.setdefault(key, v)
    common.use_repo()
    obs = []
    for key, v in sorted(seen.items()):
        a = v['args']
        content = [bytes(p['bytes']) if p['enc'] == 'l1' else bytes(p['bytes']).decode('utf-8') for p in v['parts']]
        kw = {'boost_error': a['boost']}
        if a['version'] != 99:
            kw['version'] = T.version_name(a['version'])
        if a['error'] != '-':
            kw['error'] = a['error']
        if a['micro'] != 'none':
            kw['micro'] = a['micro'] == 'yes'
        if a['mode'] != 'none':
            kw['mode'] = a['mode']
        if a['eci']:
            kw['eci'] = True
        c = call('make', content if len(content) > 1 else content[0], **kw)
        outcome, res, _ = symobs.execute(c)
        obs.append({'_call': c, 'parts': v['parts'], 'mode': a['mode'], 'version': a['version'], 'error': a['error'], 'micro': a['micro'], 'eci': a['eci'],
                    'boost': a['boost'], 'status': outcome['status'] if outcome['status'] == 'ok' else ('ValueError' if 'ValueError' in outcome.get('mro', []) else outcome.get('exc', 'error')),
                    'matrix': res['matrix'] if res else [], '_cost': 1})
    rep.evaluations += len(obs)
    verdicts, st = validate_all_branches(rep, obs, module='Trace_SegnoMP', tag='segnomp')
    rep.add_trace_stats(st, len(obs))
    n_equal = n_dev = 0
    for o in obs:
        branches = verdicts.get(o['tid'], [])
        good = [b for b in branches if not b['fails']]
        if good:
            n_equal += 1
            n_dev += all(b['facts']['dev'] for b in good)
            rep.keys.add(('XMP', json_key(o['parts']), o['mode'], o['version'], o['error'], o['micro'], o['eci']))
            continue
        b = branches[0] if branches else {'fails': [['SPEC', 'no_verdict']], 'facts': {}}
        mine = sorted(c for (p, c) in b['fails'] if p in tags)
        if mine:
            rep.violation({'call': o['_call'], 'failing_clauses': mine, 'props': sorted(tags), 'all_fails': b['fails']},
                          f"{engine.brief_call(o['_call'])}: the matrix differs from every behaviour of SegnoMP.tla; fails {b['fails']}")
        else:
            rep.notes.setdefault('exact_matrix_mismatches_attributed_to_other_properties', []).append(
                {'call': engine.brief_call(o['_call']), 'fails': b['fails']})
    rep.notes['exact_matrix_multipart'] = {'vectors': len(obs), 'matrix_equal_to_a_specification_behaviour': n_equal, 'of_which_only_via_Dev_PadBitsWhenAligned': n_dev}


def json_key(x):
    import json
    return json.dumps(x, sort_keys=True)


def run_c01(rep, tier):
    exact_matrix_part(rep, tier, {'C01'})
    exact_matrix_multipart(rep, tier, {'C01'})
    calls = gen_c01(tier, common.seed())
    rep.evaluations += len(calls)
    obs = symobs.observe_many(calls, props=['C01'])
    note_refusals(rep, obs)
    engine.judge_symbols(rep, obs, {'C01'}, key_c01, sample_sym)
    rep.rule = ('design: Segno.tla small scope (spec encoder -> spec decoder) and exact-matrix conformance of the same vectors; then '
                'class-stratified contents (digits, alphanumeric, Shift-JIS kanji, latin-1, needs-SJIS, needs-UTF-8, raw bytes incl. every '
                'single byte and kanji-range boundary pairs, ints, multi-part lists, hanzi) x versions/levels/options; every symbol is '
                'decoded by the TLA+ reference decoder; distinct = (version, level, segment modes, capped counts, eci); '
                'non-trivial = the symbol was produced and decoded')
    rep.assumptions += ['expected bytes of text come from Python codecs (trusted); the text->bytes policy is evaluated in TLA+ (SymCheck!PartBytes)']


# =============================================================================================== C02
def gen_c02(tier, seed):
    r = gen.rng(seed, 'C02')
    calls = []
    k = 0
    for v in ALLV:
        nm = 4 if v < 1 else 8
        for e in T.levels_of(v):
            if tier == 'thorough' or v in (-3, -2, -1, 0, 1, 7):
                masks = list(range(nm))
            else:
                masks = [k % nm]
                k += 1
            for m in masks:
                mode = r.choice(modes_of(v, hanzi=False))
                nmax = T.max_chars(v, e, mode)
                calls.append(content_call(r, v, e, mode, r.randint(1, max(1, nmax)), mask=m))
    # automatic choices as well (metadata must describe what was chosen)
    for c in ('1', '12345678', 'AB', 'Hello', 'x' * 40, gen.digits(r, 300), gen.latin1(r, 1000)):
        for micro in (None, False):
            calls.append(call('make', c, micro=micro))
    calls.append(call('make', ['12', 'ab']))
    # the reported mode of multi-segment symbols: every non-empty subset of the four automatic modes, both orders, and a hanzi part
    import itertools
    items = ('123', 'AB', 'abc', '\u70b9\u8317')
    for k in range(1, 5):
        for sub in itertools.combinations(items, k):
            calls.append(call('make', list(sub)))
            if k > 1:
                calls.append(call('make', list(reversed(sub))))
                calls.append(call('make', list(sub) + [('\u4e66\u8bfb', 13)]))
    calls.append(call('make', [('\u4e66\u8bfb', 13)]))
    calls.append(call('make', [('\u4e66\u8bfb', 13), ('\u4e66', 13)]))
    # pairs / triples of active options: e.g. a requested mask together with boosting that raises the level (the format information names
    # the level the codewords are protected with), ECI together with boosting, a requested version together with a requested mode
    calls += gen.option_combination_calls(call)
    for m in range(8):
        calls.append(call('make', 'HELLO', error='L', micro=False, mask=m))
        calls.append(call('make_qr', gen.digits(r, 5 + m), mask=m))
        if m < 4:
            calls.append(call('make_micro', '123', error='L', mask=m))
            calls.append(call('make', '12', version='M4', mask=m))
    # automatic masks with an exact tie of the evaluation: the format information must still name the pattern that was applied
    calls += tie_corpus_calls()
    return calls


def c02_sequence_calls(r):
    """the symbols of sequences are symbols too: version only, symbol_count only, and both (the version is then re-computed)"""
    res = []
    for n, kw in ((111, {'version': 5, 'symbol_count': 2}), (111, {'version': 5}), (111, {'symbol_count': 2}), (40, {'version': 3, 'symbol_count': 3}),
                  (300, {'version': 10, 'symbol_count': 4}), (30, {'version': 1}), (500, {'version': 7, 'symbol_count': 5, 'error': 'Q'}),
                  (20, {'version': 2, 'symbol_count': 1}), (60, {'version': 4, 'symbol_count': 2, 'error': 'H', 'boost_error': False})):
        res.append(call('make_sequence', gen.latin1(r, n), **kw))
    return res


def key_c02(o, v):
    f = v['facts']
    return ('C02', f['v'], f['level'], f['mask']) if 'v' in f else None


def run_c02(rep, tier):
    calls = gen_c02(tier, common.seed())
    rep.evaluations = len(calls)
    obs = symobs.observe_many(calls, props=['C02'])
    for c in c02_sequence_calls(gen.rng(common.seed(), 'C02', 'seq')):
        so = symobs.observe_sequence_symbols(c, props=['C02'])
        for o in so:
            o['exp']['parts'] = []          # the payload of one symbol of a sequence is C08's business
        obs += so
        rep.evaluations += 1
    note_refusals(rep, obs)
    engine.judge_symbols(rep, obs, {'C02'}, key_c02, sample_sym)
    triples = {k for k in rep.keys}
    rep.exhaustive = (tier == 'thorough' and len(triples) >= 1312)
    rep.rule = ('all 168 (version, level) pairs with rotating requested masks, all (level, mask) pairs of M1-M4, 1 and 7 (quick) / '
                'all 1312 (version, level, mask) triples (thorough), random content; distinct non-trivial = distinct '
                '(version, level, mask) triples as read from the format information by TLC')
    rep.notes['triples_covered'] = len(triples)


# =============================================================================================== C03
def block_positions(lay):
    """Indices (1-based, into the interleaved codeword sequence) of the codewords of each block."""
    nb = len(lay)
    ndata = sum(b[0] for b in lay)
    mind = lay[0][0]
    short = sum(1 for b in lay if b[0] == mind)
    res = []
    for b in range(1, nb + 1):
        pos = []
        for i in range(1, lay[b - 1][0] + 1):
            pos.append((i - 1) * nb + b if i <= mind else mind * nb + (b - short))
        for i in range(1, lay[b - 1][1] + 1):
            pos.append(ndata + (i - 1) * nb + b)
        res.append(pos)
    return res


def fault_pattern(r, v, e, weight_of):
    """One pattern: in every block weight_of(ec) distinct codewords are XORed with non-zero values."""
    lay = T.layout(v, e)
    pat = []
    ndata = sum(b[0] for b in lay)
    for (nd, ec), pos in zip(lay, block_positions(lay)):
        w = min(weight_of(ec), len(pos))
        for p in r.sample(pos, w):
            x = r.randrange(1, 256)
            if v in (-3, -1) and p == ndata:      # the 4-bit codeword of M1 / M3 only has a high nibble
                x = r.randrange(1, 16) * 16
            pat.append([p, x])
    return pat


def gen_c03(tier, seed):
    r = gen.rng(seed, 'C03')
    specs = []
    reps = 10 if tier == 'thorough' else 1
    for v in ALLV:
        for e in T.levels_of(v):
            for k in range(reps):
                mode = 'byte' if T.ccbits(v, 'byte') >= 0 else ('alphanumeric' if T.ccbits(v, 'alphanumeric') >= 0 else 'numeric')
                nmax = T.max_chars(v, e, mode)
                n = r.randint(max(1, nmax // 2), max(1, nmax))
                kw = kw_for(v, e)
                # the blocks must be correctable whatever the mask: automatic and every requested pattern, 0 included, in rotation
                nm = 4 if v < 1 else 8
                mk = (len(specs) + k) % (nm + 1) - 1
                if mk >= 0:
                    kw['mask'] = mk
                if k == 1 and mode == 'byte':
                    c = call('make', b'\x00' * n, **kw)
                elif k == 2 and mode == 'byte':
                    c = call('make', b'\xff' * n, **kw)
                else:
                    c = call('make', gen.content_for_mode(r, mode, n), **kw)
                npat = 20 if tier == 'thorough' else 2
                faults = [fault_pattern(r, v, e, lambda ec: ec // 2)]
                for _ in range(npat - 1):
                    faults.append(fault_pattern(r, v, e, lambda ec: r.randint(1, max(1, ec // 2))))
                specs.append((c, faults, (v, e) in ((-2, 'L'), (0, 'Q'), (1, 'H'), (3, 'Q'), (5, 'Q')) and k == 0))
    # sparse multi-block symbols (whole blocks of pad codewords) whose DATA looks like padding: byte content 0x11 0x11 .. and 0xCE 0xCE ..
    # becomes, shifted by the 12 / 20 header bits, runs of the pad codewords 0x11 / 0xEC
    for v, e in ((3, 'H'), (4, 'H'), (4, 'Q'), (5, 'Q'), (5, 'H'), (7, 'H'), (10, 'M')) if tier == 'quick' else [(v, e) for v in range(3, 14) for e in 'MQH']:
        lay = T.layout(v, e)
        if len(lay) < 2:
            continue
        d = lay[0][0]
        for b in (b'\x11', b'\xce', b'\xec', b'\x1e\xc1'):
            for n in (d - 2, d - 1, d, d + 1, d + 2, 2 * d - 1, 2 * d, 2 * d + 1):
                n = max(1, n // len(b))
                if n * len(b) * 8 + 20 > T.cap(v, e):
                    continue
                c = call('make', b * n, version=v, error=e, boost_error=False)
                specs.append((c, [fault_pattern(r, v, e, lambda ec: ec // 2)], False))
        specs.append((call('make', b'\x11' * d + b'\xce' * (d - 2), version=v, error=e, boost_error=False), [fault_pattern(r, v, e, lambda ec: 1)], False))
        specs.append((call('make', 'A', version=v, error=e, boost_error=False), [fault_pattern(r, v, e, lambda ec: ec // 2)], False))
    # all-zero / all-one data codewords in every layout with two block groups (a zero codeword at the end of a longer block, at a block
    # boundary, in the last row of the interleaving must survive like any other value)
    for v in range(1, 41):
        for e in QR_LEVELS:
            lay = T.layout(v, e)
            if len({b[0] for b in lay}) < 2 or (tier == 'quick' and v > 24 and (v + QR_LEVELS.index(e)) % 4):
                continue
            nmax = T.max_chars(v, e, 'byte')
            for content in (b'\x00' * nmax, b'\xff' * (nmax - 1), b'\x00' * (nmax // 2)):
                specs.append((call('make', content, version=v, error=e, boost_error=False), [fault_pattern(r, v, e, lambda ec: 1)], False))
    # multi-part content of one mode (separate segments): sized as written, also in M1 / M3 with their half codeword
    for i, c in enumerate(gen.multipart_boundary_calls(call, True)):
        if c['kw'].get('version') is None and (tier == 'thorough' or i % 3 == 0):
            specs.append((c, [], False))
    # pairs / triples of active options (requested mask x boosting x ECI x requested version / mode / level x micro)
    for c in gen.option_combination_calls(call):
        specs.append((c, [], False))
    # every multi-part boundary call that merges equal-mode parts (the parts are sized as the merged segment)
    for lst in (['123', '457'], ['Hello ', 'World'], ['ABCDEFGH', 'IJKLMNOP'], ['12', '34', '56'], ['AB', 'CD', 'EF', 'GH'], [b'ab', b'cd'], ['\u70b9', '\u8317']):
        for kw in ({}, {'micro': False}, {'error': 'M'}, {'boost_error': False}):
            specs.append((call('make', lst, **kw), [], False))
    # data codeword sequences that start with zero codewords (M4, numeric, one digit: 000 000001 dddd)
    for e in ('L', 'M', 'Q'):
        for d in ('0', '7'):
            c = call('make', d, version='M4', error=e, boost_error=False)
            specs.append((c, [fault_pattern(r, 0, e, lambda ec: ec // 2)], False))
    return specs


def run_c03(rep, tier):
    cfg = 'MC_RS_quick.cfg' if tier == 'quick' else 'MC_RS_thorough.cfg'
    out, st = common.run_tlc('MC_RSvals', cfg=cfg, workers=8, timeout=3000, xmx='8g')
    rep.add_design('MC_RS', cfg, out, st, 'fault environment on blocks of the reference encoder: every pattern of up to 2 (thorough: 3) corrupted codewords x error values '
                   'is restored by the bounded-distance decoder; corrupted blocks never have zero syndromes; GF(256) field axioms')
    specs = gen_c03(tier, common.seed())
    rep.evaluations = len(specs)
    obs = symobs.observe_many([s[0] for s in specs], props=['C03'])
    npat = 0
    for o, (c, faults, exh) in zip(obs, specs):
        o['exp']['faults'] = faults
        o['exp']['exh_single'] = exh
        npat += len(faults)
        if 'res' in o:
            o['_cost'] = o.get('_cost', 1) * (1 + len(faults))
    note_refusals(rep, obs)

    def key(o, v):
        f = v['facts']
        return ('C03', f['v'], f['level']) if 'v' in f else None
    res = engine.judge_symbols(rep, obs, {'C03'}, key, sample_sym)
    singles = sum(3 * T.load()['total'][o['res']['version'] + 3] for o in obs if 'res' in o and o['exp']['exh_single'])
    rep.notes['fault_patterns_injected'] = npat
    rep.notes['single_error_patterns_exhaustive'] = singles
    rep.notes['layouts_covered'] = len(rep.keys)
    rep.exhaustive = len(rep.keys) >= 168
    rep.rule = ('every one of the 168 (version, level) block layouts; per symbol: RS validity of every block, one error pattern with '
                'floor(ec/2) corrupted codewords in every block plus random lighter patterns, restored by the TLA+ Berlekamp-Massey '
                'decoder; all single-codeword errors (3 values each) on M2-L, M4-Q, 1-H, 3-Q, 5-Q; distinct non-trivial = layouts')
    rep.assumptions += ['faults are injected on the codeword sequence read from the observed matrix (equivalent to module flips inside one codeword)']


# =============================================================================================== C06
def gen_c06(tier, seed):
    r = gen.rng(seed, 'C06')
    calls = []
    # requested masks: all 8 / 4 on one symbol per size class
    for v in ((-3, -2, -1, 0, 1, 2, 6, 7, 14, 21, 27, 32, 40) if tier == 'quick' else ALLV):
        e = T.levels_of(v)[0]
        mode = r.choice(modes_of(v, hanzi=False))
        n = r.randint(1, max(1, T.max_chars(v, e, mode)))
        c = gen.content_for_mode(r, mode, n)
        for m in range(4 if v < 1 else 8):
            calls.append(call('make', c, **kw_for(v, e, mask=m)))
    for m in ('0', '3'):
        calls.append(call('make', 'mask as string', mask=m, micro=False))
    # other notations of a pattern number the implementation converts with int(): if the call is accepted, THAT pattern is used - in
    # particular pattern 0 written as 0.0 / False / ' 0 ' is a request, not "no request" (a refusal is fine: these types are not documented)
    for m in (0.0, 3.0, 7.0, False, True, ' 0 ', '00', ' 2'):
        for content, kw in (('mask notation', {'micro': False}), ('12345', {'version': 'M2'}), ('MASK NOTATION 2', {'version': 2, 'error': 'Q'})):
            if kw.get('version') == 'M2' and m == 7.0:
                continue
            calls.append(call('make', content, mask=m, **kw))
        calls.append(call('make_qr', 'mask notation qr', mask=m))
    # automatic mask: many small symbols, one (thorough: ten) per version
    nsmall = 700 if tier == 'quick' else 5000
    for i in range(nsmall):
        v = r.choice((-3, -2, -1, 0, 1, 2, 3, 4))
        e = r.choice(T.levels_of(v))
        mode = r.choice(modes_of(v, hanzi=False))
        nmax = T.max_chars(v, e, mode)
        if nmax < 1:
            continue
        calls.append(content_call(r, v, e, mode, r.randint(1, nmax)))
    for v in range(5, 41):
        for _ in range((3 if v <= 12 else 1) if tier == 'quick' else 6):
            e = r.choice(QR_LEVELS)
            mode = r.choice(modes_of(v, hanzi=False))
            calls.append(content_call(r, v, e, mode, r.randint(1, T.max_chars(v, e, mode))))
    calls += tie_corpus_calls()
    return calls


def tie_corpus_calls():
    """contents whose ISO evaluation has an exact tie at the minimum (with / without an N4 contribution, three-way); selected once by
    tools/find_mask_ties.py, every entry is re-evaluated by TLC on each run"""
    import json
    import os
    p = os.path.join(common.VERIF, 'harness', 'data', 'mask_ties.json')
    if not os.path.exists(p):
        return []
    with open(p) as f:
        d = json.load(f)
    return [call('make_qr' if isinstance(e['version'], int) else 'make', e['content'], version=e['version'], error=e['error'], boost_error=False) for e in d['entries']]


def run_c06(rep, tier):
    calls = gen_c06(tier, common.seed())
    rep.evaluations = len(calls)
    obs = symobs.observe_many(calls, props=['C06'])
    for o in obs:
        if 'res' in o and o['exp']['mask_req'] < 0:
            o['_cost'] = o['_cost'] * 8
    # sequences: a requested mask applies to every symbol of the sequence (also to the single-symbol shortcut)
    r = gen.rng(common.seed(), 'C06', 'seq')
    nseq = 0
    for m in range(8):
        for c in (call('make_sequence', gen.latin1(r, 12), version=1 + m % 2, mask=m),
                  call('make_sequence', gen.digits(r, 30), symbol_count=2, mask=m),
                  call('make_sequence', gen.alnum(r, 90), version=1, mask=m, error='Q'),
                  # version AND symbol_count: the version decides how many symbols there are (more / fewer than symbol_count, up to 16)
                  call('make_sequence', gen.alnum(r, 60), version=1, symbol_count=2, mask=m),
                  call('make_sequence', gen.latin1(r, 20), version=2, symbol_count=5, mask=m),
                  call('make_sequence', gen.latin1(r, 150 + m), version=1, symbol_count=1 + m, mask=m, error='L')):
            obs += symobs.observe_sequence_symbols(c, props=['C06'])
            nseq += 1
    # automatic mask in sequences: every symbol gets its own best mask
    for c in (call('make_sequence', gen.latin1(r, 40), version=1), call('make_sequence', gen.alnum(r, 120), symbol_count=4),
              call('make_sequence', gen.digits(r, 200), version=2, error='M'), call('make_sequence', gen.latin1(r, 300), symbol_count=5, error='Q')):
        obs += symobs.observe_sequence_symbols(c, props=['C06'])
        nseq += 1
    # many short sequences: the second and later symbols are evaluated like the first one (nothing of the previous symbol is left in the
    # working matrices); the evaluation of small symbols is sensitive to single modules
    for i in range(40 if tier == 'quick' else 300):
        k = 2 + i % 3
        v = 1 + i % 2
        n = max(k, (T.max_chars(v, 'L', 'byte', extra=20) * k * (4 + i % 5)) // 9)
        c = call('make_sequence', gen.latin1(r, n) if i % 4 else gen.alnum(r, n), version=v, error='L') if i % 3 else call('make_sequence', gen.latin1(r, n), symbol_count=k)
        obs += symobs.observe_sequence_symbols(c, props=['C06'])
        nseq += 1
    rep.evaluations += nseq
    note_refusals(rep, obs)

    def key(o, v):
        f = v['facts']
        if 'v' not in f:
            return None
        if o['exp']['mask_req'] >= 0:
            return ('req', f['v'], f['mask'])
        sc = f.get('scores') or []
        # non-trivial: the candidates do not all score the same
        return ('auto', f['v'], f['level'], f['mask'], tuple(sc)) if len(set(sc)) > 1 else None
    results = engine.judge_symbols(rep, obs, {'C06'}, key, sample_sym)
    ties = 0
    for o, v, _fails in results:
        sc = v.get('facts', {}).get('scores') or []
        if sc and o['exp']['mask_req'] < 0 and sc.count(min(sc)) > 1 and o['res']['version'] >= 1:
            ties += 1
    rep.notes['automatic_mask_symbols_with_a_tie_at_the_minimum_confirmed_by_tlc'] = ties
    rep.rule = ('requested: all 8 (4) patterns on one symbol per size class; automatic: random contents on M1..4 and one symbol per '
                'version 5..40 (thorough: more); TLC re-masks the observed symbol with every candidate (format/version areas light), '
                'scores it with the ISO rules and compares the arg-min / arg-max; non-trivial = candidates with different scores')


# =============================================================================================== C13
def gen_c13(tier, seed):
    r = gen.rng(seed, 'C13')
    calls = []
    small = (-3, -2, -1, 0, 1, 2, 3)
    big = (10, 27, 40) if tier == 'quick' else tuple(range(4, 41))
    for v in small:
        for e in T.levels_of(v):
            for mode in modes_of(v):
                nmax = T.max_chars(v, e, mode)
                if nmax < 1:
                    continue
                ns = set(range(1, min(nmax, 9) + 1)) | {n for n in range(nmax - 5, nmax + 1) if n >= 1}
                for n in sorted(ns):
                    calls.append(content_call(r, v, e, mode, n))
    k = 0
    for v in big:
        for e in QR_LEVELS:
            ms = modes_of(v) if tier == 'thorough' and v <= 12 else [modes_of(v)[k % 5]]
            k += 1
            for mode in ms:
                nmax = T.max_chars(v, e, mode)
                for n in (nmax, nmax - 1, nmax - 2, max(1, nmax - r.randint(3, 40))):
                    calls.append(content_call(r, v, e, mode, n))
    # automatic version / level choice and multi-part content end somewhere else in the symbol
    for n in range(1, 60, 3 if tier == 'quick' else 1):
        calls.append(call('make', gen.digits(r, n)))
        calls.append(call('make', gen.latin1(r, n), micro=False))
    calls.append(call('make', ['12', 'AB', 'cd']))
    # pairs / triples of active options, and an ECI header with boosting on at every length (the header counts when the level is raised)
    calls += gen.option_combination_calls(call)
    calls += [c for c in gen.eci_boundary_calls(call, True) if 'boost_error' not in c['kw'] and 'version' not in c['kw']]
    # multi-block symbols, every numeric / alphanumeric length: the terminated stream ends at every position relative to the block
    # boundaries (the pad codewords that follow must not depend on where a block ends or on the last data codeword)
    for v, e in (((3, 'H'), (4, 'Q'), (5, 'Q'), (5, 'H')) if tier == 'quick' else [(v, e) for v in range(3, 11) for e in QR_LEVELS if len(T.layout(v, e)) > 1]):
        for mode in ('numeric', 'alphanumeric'):
            for n in range(1, T.max_chars(v, e, mode) + 1):
                calls.append(content_call(r, v, e, mode, n))
    # large, sparsely filled symbols: hundreds to thousands of pad codewords, all of them alternating up to the capacity
    for v, e in (((13, 'L'), (15, 'M'), (20, 'Q'), (27, 'L'), (33, 'H'), (40, 'L')) if tier == 'quick' else [(v, e) for v in range(11, 41) for e in ('L', 'H')]):
        for c in ('1234567', 'AB', 'x'):
            calls.append(call('make', c, version=v, error=e, boost_error=False))
    # the middle of every range: random version, level, mode and length (thorough: many)
    for _ in range(60 if tier == 'quick' else 1500):
        v = r.choice(ALLV)
        e = r.choice(T.levels_of(v))
        mode = r.choice(modes_of(v))
        nmax = T.max_chars(v, e, mode)
        if nmax >= 1:
            calls.append(content_call(r, v, e, mode, r.randint(1, nmax)))
    # the version search near the character-count-indicator range boundaries: one and two characters more than (v, e) holds - the stream
    # must still end with a terminator / padding in a larger symbol (never be cut at the capacity)
    for v in ((9, 10, 26, 27, 28, 39) if tier == 'quick' else range(1, 40)):
        for e in (('L', 'H') if tier == 'quick' else QR_LEVELS):
            for mode in ('numeric', 'alphanumeric', 'kanji', 'byte'):
                for d in (1, 2):
                    calls.append(call('make', gen.content_for_mode(r, mode, T.max_chars(v, e, mode) + d), error=e, boost_error=False, micro=False))
    return calls


def run_c13(rep, tier):
    calls = gen_c13(tier, common.seed())
    rep.evaluations = len(calls)
    obs = symobs.observe_many(calls, props=['C13'])
    # one process, in order: symbols of different kinds with the same capacity and the same stream length, alternately
    sess = gen.same_capacity_sessions(call, gen.rng(common.seed(), 'C13', 'session'), tier == 'quick')
    rep.evaluations += len(sess)
    obs += symobs.observe_many(sess, props=['C13'], procs=1)
    # the symbols of sequences (each boosted on its own): chunks of unequal length on both sides of a level boundary
    rs = gen.rng(common.seed(), 'C13', 'seq')
    nseq = 0
    for n in range(20, 64, 1 if tier == 'thorough' else 2):
        for c in (call('make_sequence', gen.digits(rs, n), version=1), call('make_sequence', gen.digits(rs, n // 2 + 1), symbol_count=2),
                  call('make_sequence', gen.latin1(rs, n // 2), symbol_count=2 + n % 2, error='L')):
            obs += symobs.observe_sequence_symbols(c, props=['C13'])
            nseq += 1
    rep.evaluations += nseq
    note_refusals(rep, obs)

    def key(o, v):
        f = v['facts']
        return ('C13', f['v'], f['level'], f['q8'], min(f['dist'], 13)) if 'v' in f and f.get('parse') == 'end' else None
    engine.judge_symbols(rep, obs, {'C13'}, key, sample_sym)
    rep.rule = ('for every (version, level, mode) of M1..M4, 1..3 (quick: plus 10, 27, 40; thorough: all versions) contents of 1..9 '
                'characters and of the 6 lengths ending at the capacity, so that the terminated stream hits every residue mod 8 and '
                'every distance 0..12 to the capacity; distinct non-trivial = (version, level, residue mod 8, distance capped at 13)')
