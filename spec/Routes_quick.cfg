CONSTANTS
  MaxOpts = 1
SPECIFICATION Spec
CHECK_DEADLOCK FALSE
INVARIANT SameDocument
INVARIANT CliDropsUnsupported
INVARIANT Export
