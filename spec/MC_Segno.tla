------------------------------ MODULE MC_Segno ------------------------------
EXTENDS Segno
\* '0' '9' 'A' ':' 'a' 0x81 0x40 0x3F 0xFF : one byte at every boundary of the content classes
Alpha9 == {48, 57, 65, 58, 97, 129, 64, 63, 255}
Alpha5 == {48, 65, 97, 129, 64}
VQuick == {99, -3, -1, 1}
VQ2 == {99, -1}
VThorough == {99, -3, -2, -1, 0, 1, 2}
MasksQuick == {-1, 1}
MasksThorough == {-1, 0, 3, 7}
Nothing == {}
NoSeq == <<>>
=============================================================================
