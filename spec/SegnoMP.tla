------------------------------- MODULE SegnoMP -------------------------------
(***************************************************************************)
(* segno.make() for MULTI-PART content, requested modes and ECI: the       *)
(* generalisation of Segno.tla.  Content is a sequence of parts            *)
(*   [bytes, enc]      enc = "l1" (ISO 8859-1 / raw bytes) or "u8" (UTF-8) *)
(* The stages mirror encoder.prepare_data / Segments.add_segment /         *)
(* find_version / boost_error_level / write_segment:                       *)
(*                                                                         *)
(*   Normalize      (of Decide.tla) combination checks                     *)
(*   PrepareParts   mode per part (requested or first applicable),         *)
(*                  refusal if not representable; consecutive parts of     *)
(*                  equal mode and encoding are merged iff the previous    *)
(*                  one ends with a complete group (3 digits / 2 chars)    *)
(*   InsertEci      ECI header before every byte segment whose encoding is *)
(*                  not ISO 8859-1 (only with eci)                         *)
(*   FindVersionMP  first admissible version whose capacity holds the      *)
(*                  stream (all indicators, ECI headers, Hanzi subset)     *)
(*   BoostMP        only for single-segment content                        *)
(*   then the data pipeline of Segno.tla (Terminate .. BuildSymbol)        *)
(*                                                                         *)
(* Invariants evaluate the reference decoder on the returned matrix; the   *)
(* returned states are exported for exact-matrix conformance.              *)
(***************************************************************************)
EXTENDS Decide, SymCheck

CONSTANTS PartPool,     \* set of parts (records [bytes, enc]) contents are built from
          MaxParts,
          ReqModesMP, ReqVersionsMP, ReqLevelsMP, ReqMicroMP, ReqEci, ReqBoostMP,
          AllowDevPadMP

VARIABLES parts, stage, segs, bits, endp, fbits, usedmask, M, dev
mvars == <<parts, stage, segs, bits, endp, fbits, usedmask, M, dev>>
allv == <<vars, mvars>>

Group(m) == CASE m = "numeric" -> 3 [] m = "alphanumeric" -> 2 [] OTHER -> 1
PartMode(p) == IF a.mode # "none" THEN a.mode ELSE AutoMode(ClassOfBytes(p.bytes, FALSE, FALSE))
PartOK(p) == a.mode = "none" \/ Representable(a.mode, ClassOfBytes(p.bytes, a.mode = "hanzi", FALSE))
\* the encoding only matters (and is only kept) for byte segments
SegEnc(p) == IF PartMode(p) = "byte" THEN p.enc ELSE "-"
MergeParts(ps) ==
  FoldLeft(LAMBDA acc, p :
     LET m == PartMode(p) e == SegEnc(p) IN
     IF acc # <<>> /\ acc[Len(acc)].mode = m /\ acc[Len(acc)].enc = e /\ CharCount(m, acc[Len(acc)].bytes) % Group(m) = 0
     THEN [acc EXCEPT ![Len(acc)].bytes = @ \o p.bytes]
     ELSE Append(acc, [kind |-> "data", mode |-> m, enc |-> e, bytes |-> p.bytes]),
     <<>>, ps)
WithEci(ss) == FoldLeft(LAMBDA acc, sg : IF a.eci /\ sg.mode = "byte" /\ sg.enc = "u8" THEN acc \o <<[kind |-> "eci", num |-> 26], sg>> ELSE Append(acc, sg), <<>>, ss)

MInit == /\ parts \in UNION {[1..k -> PartPool] : k \in 1..MaxParts}
         /\ stage = "decide" /\ segs = <<>> /\ bits = <<>> /\ endp = 0 /\ fbits = <<>> /\ usedmask = -1 /\ M = <<>> /\ dev = FALSE
         /\ \E mr \in ReqModesMP : \E vr \in ReqVersionsMP : \E er \in ReqLevelsMP : \E mi \in ReqMicroMP : \E ec \in ReqEci : \E bo \in ReqBoostMP :
              a = Args("l1", 1, mr, vr, er, mi, ec, bo)          \* class / length of the abstract single part are not used here
         /\ pc = "start" /\ mode = "none" /\ ver = NoVersion /\ lvl = "?" /\ out = [st |-> "?"]

NormalizeMP == /\ stage = "decide" /\ pc = "start" /\ Normalize /\ UNCHANGED mvars
RefuseMP(why) == /\ pc' = "done" /\ out' = [st |-> "ValueError", why |-> why] /\ UNCHANGED <<a, mode, ver, lvl>>
PrepareParts ==
  /\ stage = "decide" /\ pc = "normalized"
  /\ IF \E i \in 1..Len(parts) : ~PartOK(parts[i])
     THEN RefuseMP("content not representable in requested mode") /\ UNCHANGED mvars
     ELSE /\ segs' = WithEci(MergeParts(parts))
          /\ pc' = "prepared" /\ UNCHANGED <<a, mode, ver, lvl, out, parts, stage, bits, endp, fbits, usedmask, M, dev>>
DataOf(ss) == SelectSeq(ss, LAMBDA sg : sg.kind = "data")
AdmissibleMP(v) ==
  /\ (IsMicro(v) => a.micro # "no" /\ ~a.eci /\ \A i \in 1..Len(DataOf(segs)) : ModeOK(v, DataOf(segs)[i].mode))
  /\ (~IsMicro(v) => a.micro # "yes")
  /\ (v = -3 => a.error = "-")
  /\ HasLevel(v, LevelFor(v, a))
FitsMP(v) == AdmissibleMP(v) /\ CapT(v, LevelFor(v, a)) >= StreamLen(v, segs)
FirstFitMP == LET S == SelectSeq(SearchRange, LAMBDA v : FitsMP(v)) IN IF S = <<>> THEN NoVersion ELSE S[1]
FindVersionMP ==
  /\ stage = "decide" /\ pc = "prepared"
  /\ LET g == FirstFitMP IN
     IF g = NoVersion \/ (a.version # NoVersion /\ g > a.version)
     THEN /\ pc' = "done" /\ out' = [st |-> "DataOverflowError", why |-> "does not fit"] /\ UNCHANGED <<a, mode, ver, lvl>>
     ELSE /\ ver' = (IF a.version = NoVersion THEN g ELSE a.version)
          /\ lvl' = LevelFor(IF a.version = NoVersion THEN g ELSE a.version, a)
          /\ pc' = "levelled" /\ UNCHANGED <<a, mode, out>>
  /\ UNCHANGED mvars
BoostMP ==
  /\ stage = "decide" /\ pc = "levelled"
  /\ LET need == StreamLen(ver, segs)
         climb == FoldLeft(LAMBDA st, e : IF st[2] /\ LevelIdx(e) > LevelIdx(st[1]) /\ CapT(ver, e) >= need THEN <<e, TRUE>>
                                          ELSE IF LevelIdx(e) > LevelIdx(st[1]) THEN <<st[1], FALSE>> ELSE st,
                           <<lvl, TRUE>>, LevelsOf(ver))
     IN lvl' = (IF a.boost /\ lvl \notin {"-", "H"} /\ Len(DataOf(segs)) = 1 THEN climb[1] ELSE lvl)
  /\ pc' = "boosted" /\ UNCHANGED <<a, mode, ver, out>> /\ UNCHANGED mvars
ReturnMP == /\ stage = "decide" /\ pc = "boosted" /\ pc' = "done"
            /\ out' = [st |-> "ok", version |-> ver, error |-> lvl]
            /\ stage' = "segments" /\ UNCHANGED <<a, mode, ver, lvl, parts, segs, bits, endp, fbits, usedmask, M, dev>>
CapM == Cap(out.version, out.error)
WriteSegmentsMP == /\ stage = "segments" /\ stage' = "terminate"
                   /\ bits' = FoldLeft(LAMBDA x, sg : x \o EncodeSeg(out.version, sg), <<>>, segs)
                   /\ endp' = Len(bits')
                   /\ UNCHANGED <<vars, parts, segs, fbits, usedmask, M, dev>>
TerminateMP == /\ stage = "terminate" /\ stage' = "padbits"
               /\ bits' = bits \o Zeros(Min2(CapM - Len(bits), TermLen(out.version)))
               /\ UNCHANGED <<vars, parts, segs, endp, fbits, usedmask, M, dev>>
PadBitsMP == /\ stage = "padbits" /\ stage' = "padcw"
             /\ bits' = bits \o Zeros(IF Len(bits) % 8 = 0 \/ Len(bits) = CapM THEN 0 ELSE Min2(8 - (Len(bits) % 8), CapM - Len(bits)))
             /\ UNCHANGED <<vars, parts, segs, endp, fbits, usedmask, M, dev>>
DevPadMP == /\ AllowDevPadMP /\ stage = "padbits" /\ stage' = "padcw" /\ ~HalfCW(out.version)
            /\ Len(bits) % 8 = 0 /\ Len(bits) < CapM
            /\ bits' = bits \o Zeros(Min2(8, CapM - Len(bits))) /\ dev' = TRUE
            /\ UNCHANGED <<vars, parts, segs, endp, fbits, usedmask, M>>
PadCodewordsMP == /\ stage = "padcw" /\ stage' = "final"
                  /\ LET full == (CapM - Len(bits)) \div 8
                         pads == FoldLeft(LAMBDA x, i : x \o PadCW(i), <<>>, Iota(full)) IN
                     bits' = bits \o pads \o Zeros(CapM - Len(bits) - 8 * full)
                  /\ UNCHANGED <<vars, parts, segs, endp, fbits, usedmask, M, dev>>
FinalMessageMP == /\ stage = "final" /\ stage' = "mask"
                  /\ fbits' = FinalBits(out.version, out.error, bits)
                  /\ UNCHANGED <<vars, parts, segs, bits, endp, usedmask, M, dev>>
ChooseMaskMP == /\ stage = "mask" /\ stage' = "build"
                /\ usedmask' = BestOf(MaskScores(BuildMatrix(out.version, out.error, 0, fbits), out.version, 0, N3Iso), IsMicro(out.version))
                /\ UNCHANGED <<vars, parts, segs, bits, endp, fbits, M, dev>>
BuildSymbolMP == /\ stage = "build" /\ stage' = "returned"
                 /\ M' = BuildMatrix(out.version, out.error, usedmask, fbits)
                 /\ UNCHANGED <<vars, parts, segs, bits, endp, fbits, usedmask, dev>>
MNext == NormalizeMP \/ PrepareParts \/ FindVersionMP \/ BoostMP \/ ReturnMP \/ WriteSegmentsMP \/ TerminateMP \/ PadBitsMP \/ DevPadMP
         \/ PadCodewordsMP \/ FinalMessageMP \/ ChooseMaskMP \/ BuildSymbolMP

(* ------------------------------------------------------------------ properties *)
ReturnedMP == stage = "returned"
DecM == Decode(M)
WantPayload == FoldLeft(LAMBDA x, p : x \o p.bytes, <<>>, parts)
C01_PayloadMP == ReturnedMP => /\ DecM.fmt.valid /\ DecM.d.rs_ok /\ DecM.d.parse = "end" /\ DecM.d.payload = WantPayload
\* every byte segment with a non-default encoding is preceded by its ECI header, and there is no header without eci
C01_EciMP == ReturnedMP =>
   LET ds == DecM.d.segs IN
   /\ (~a.eci => \A i \in 1..Len(ds) : ds[i].kind # "eci")
   /\ Len(ds) = Len(segs) /\ \A i \in 1..Len(ds) : ds[i].kind = segs[i].kind /\ (ds[i].kind = "eci" => ds[i].num = segs[i].num)
                                                   /\ (ds[i].kind = "data" => ds[i].mode = segs[i].mode /\ ds[i].bytes = segs[i].bytes)
C04_SmallestMP == ReturnedMP /\ a.version = NoVersion => \A w \in -3..40 : w < out.version => ~FitsMP(w)
C05_LevelMP == ReturnedMP => (a.error # "-" /\ out.error # "-" => LevelIdx(out.error) >= LevelIdx(a.error)) /\ (IsMicro(out.version) => out.error # "H")
C13_TailMP == ReturnedMP /\ ~dev => SubSeq(DecM.d.dbits, endp + 1, Len(DecM.d.dbits)) = IsoTail(out.version, CapM, endp)
MExport == (ReturnedMP \/ (pc = "done" /\ out.st # "ok")) =>
           PrintT(<<"VECTOR", ToJson([parts |-> parts, args |-> a, out |-> out, stage |-> stage, dev |-> dev, mask |-> usedmask, matrix |-> M])>>)
=============================================================================
