---------------------------- MODULE Trace_Objects ----------------------------
(* Conformance of the returned objects with Objects.tla.  One initial state per observation: the objects are the ones the harness
   built (class, number of items, and per item the SHA-256 digest of the real matrix as key), the operation is applied by the
   machine (Op) and the outcome the implementation showed is compared with the outcome of the object model.  Clauses:
     keys_as_modelled      the matrices are equal exactly where the model says they are (same content, same position)
     outcome               the operation's outcome is the one of the object model
     delegated_value       a one-item sequence hands out exactly the item's attribute value
     terminal_in_order     QRCodeSequence.terminal writes the items' terminal output one after the other                       *)
EXTENDS Objects, IOUtils, TLCExt
Obs == JsonDeserialize(IOEnv.TRACE_FILE)
N == Len(Obs)
VARIABLES tid, judged
tvars == <<tid, judged>>
ObsObjs(o) == [k \in 1..Len(o.objs) |-> [cls |-> o.objs[k].cls, content |-> o.objs[k].content, n |-> o.objs[k].n,
                                          keys |-> [m \in 1..o.objs[k].n |-> o.objs[k].keys[m]]]]
TraceInit == /\ tid \in 1..N /\ judged = FALSE
             /\ objs = ObsObjs(Obs[tid]) /\ op = NoOp /\ result = "?"
TraceOp == Op(Obs[tid].op) /\ UNCHANGED tvars
Judge == /\ op # NoOp /\ ~judged /\ judged' = TRUE /\ UNCHANGED <<vars, tid>>
         /\ LET o == Obs[tid]
                model == [k \in 1..Len(o.objs) |-> Obj(o.objs[k].cls, o.objs[k].content, o.objs[k].n)]
                slots == {<<k, m>> : k \in 1..Len(o.objs), m \in 1..2} \cap {s \in (1..Len(o.objs)) \X (1..2) : s[2] <= o.objs[s[1]].n}
                fails == {c \in {"keys_as_modelled", "outcome", "delegated_value", "terminal_in_order"} :
                            CASE c = "keys_as_modelled" -> \E s, t \in slots : (model[s[1]].keys[s[2]] = model[t[1]].keys[t[2]]) # (objs[s[1]].keys[s[2]] = objs[t[1]].keys[t[2]])
                              [] c = "outcome" -> o.got # result
                              [] c = "delegated_value" -> op.name = "attr" /\ result = "present" /\ ~o.same_as_item
                              [] c = "terminal_in_order" -> op.name = "iter_terminal" /\ ~o.same_as_item}
            IN PrintT(<<"VERDICT", ToJson([tid |-> o.tid, fails |-> {<<"objects", c>> : c \in fails}, devs |-> {},
                                            facts |-> [expected |-> result, got |-> o.got]])>>)
TraceNext == TraceOp \/ Judge
AllJudged == TLCGet("distinct") >= 3 * N
=============================================================================
