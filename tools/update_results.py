#!/usr/bin/env python3
"""merge lines of tools/run_mutant.sh summaries ("<id> <prop> exit=<n> violations_listed=<k> :: ...") into seeded/results.json"""
import json, os, re, sys
root = os.path.join(os.path.dirname(os.path.abspath(__file__)), '..', 'seeded')
p = os.path.join(root, 'results.json')
res = json.load(open(p)) if os.path.exists(p) else {}
rx = re.compile(r'^(\S+) (C\d\d) exit=(\d+) violations_listed=(\d+) :: .*? (\d+) violations')
for f in sys.argv[1:]:
    for line in open(f):
        m = rx.match(line)
        if not m:
            continue
        mid, prop, ex, listed, nviol = m.group(1), m.group(2), int(m.group(3)), int(m.group(4)), int(m.group(5))
        if ex not in (0, 1):
            continue
        e = res.setdefault(mid, {})
        if 'title' not in e and os.path.exists(os.path.join(root, mid, 'meta.json')):
            meta = json.load(open(os.path.join(root, mid, 'meta.json')))
            e['property'] = meta.get('property', mid[:3])
            e['title'] = meta.get('title', '')
        e.setdefault('runs', {})[prop] = {'exit': ex, 'violations': nviol}
for mid, e in res.items():
    e['detected_by'] = sorted(k for k, v in e.get('runs', {}).items() if v['exit'] == 1)
json.dump(res, open(p, 'w'), indent=1, ensure_ascii=False, sort_keys=True)
print(len(res), 'entries;', sum(1 for e in res.values() if not e['detected_by']), 'without a detecting check:', [k for k, e in res.items() if not e['detected_by']])
