CONSTANTS
  MaxNonDefault = 3
SPECIFICATION Spec
CHECK_DEADLOCK FALSE
INVARIANT ExclusionsRefused
INVARIANT NeverOtherException
INVARIANT SpellingsAccepted
INVARIANT Export
