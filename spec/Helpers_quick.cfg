CONSTANTS
  Alphabet = {97, 59, 58, 92, 34, 44, 10}
  MaxLen = 3
  MaxFields = 2
INIT Init
NEXT Next
INVARIANT RoundTrip
INVARIANT NoForgery
