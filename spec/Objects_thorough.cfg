CONSTANTS
  MaxObjs = 3
SPECIFICATION Spec
CHECK_DEADLOCK FALSE
INVARIANT EqReflexive
INVARIANT EqSymmetric
INVARIANT EqTransitive
INVARIANT EqCongruence
INVARIANT SymbolNeverEqualsSequence
INVARIANT DelegationIffSingle
INVARIANT NeIsNotEq
INVARIANT Export
