----------------------------- MODULE MC_Decide -----------------------------
(* Model values for Decide (the cfg parser does not accept negative numbers) *)
EXTENDS Decide
SmallV == {-3, -2, -1, 0, 1, 2}
AllV == -3..40
QuickBV == {-3, -2, -1, 0, 1, 2, 9, 10, 26, 27, 40}
NoV == {}
AllVariants == << <<"none", TRUE>>, <<"none", FALSE>>, <<"yes", TRUE>>, <<"yes", FALSE>>, <<"no", TRUE>>, <<"no", FALSE>> >>
QuickVariants == << <<"none", TRUE>>, <<"yes", FALSE>>, <<"no", TRUE>> >>
AllVSels == {"none", "same", "less", "more"}
SlimVSels == {"none"}
SlimVariants == << <<"none", FALSE>> >>
QuickVSels == {"none", "same", "less"}
=============================================================================
