"""C04, C05, C07 (and the refusal part of C14): the decision model Decide.tla, spec -> code vectors and trace validation."""
import hashlib
import json
import os
from . import common, symobs, gen, engine, props_sym
from . import tables as T
from .symobs import call

MODES = ('numeric', 'alphanumeric', 'byte', 'kanji', 'hanzi')
# ISO format information: error correction level indicator bits (segno.consts.ERROR_LEVEL_* use the same numbers)
LEVEL_OF_INDICATOR = {1: 'L', 0: 'M', 3: 'Q', 2: 'H'}


# ------------------------------------------------------------------ design run + vector export (spec -> code)
def design_run(rep, cfg, what, workers=None, coverage=False):
    # -coverage slows TLC down several times: it is requested for the small-scope run only (every action of the model is taken there)
    out, st = common.run_tlc('MC_Decide', cfg=cfg, workers=workers or common.NCPU, timeout=1500, xmx='12g', coverage=coverage)
    rep.add_design('MC_Decide', cfg, out, st, what)
    return common.parse_vectors(out)


# ------------------------------------------------------------------ concretisation of abstract vectors
def concretise_content(r, cls, n):
    if cls == 'num':
        return gen.digits(r, n)
    if cls == 'alnum':
        return gen.alnum(r, n)
    if cls == 'kanji':
        return gen.kanji(r, n // 2)
    if cls == 'hanzi':
        return gen.hanzi(r, n // 2)
    if cls == 'l1':
        return gen.latin1(r, n)
    if cls == 'x8':       # text that needs UTF-8: U+0151 has two bytes in UTF-8 and is neither latin-1 nor Shift JIS
        return 'ő' + 'a' * (n - 2)
    raise ValueError(cls)


def kwargs_of(a):
    kw = {}
    if a['version'] != 99:
        kw['version'] = T.version_name(a['version'])
    if a['error'] != '-':
        kw['error'] = a['error']
    if a['mode'] != 'none':
        kw['mode'] = a['mode']
    if a['micro'] != 'none':
        kw['micro'] = a['micro'] == 'yes'
    if a['eci']:
        kw['eci'] = True
    kw['boost_error'] = bool(a['boost'])
    return kw


def stable_hash(obj):
    return int(hashlib.sha256(json.dumps(obj, sort_keys=True).encode()).hexdigest()[:8], 16)


def select(vectors, tier):
    """Keep every small vector; sample the expensive ones (long contents) deterministically."""
    keep = []
    for v in vectors:
        n = v['args']['n']
        m = 1 if n <= 120 else (n // (60 if tier == 'quick' else 400) + 1)
        if m == 1 or stable_hash(v['args']) % m == 0:
            keep.append(v)
    return keep


def vector_call(r, vec):
    a = vec['args']
    content = concretise_content(r, a['cls'], a['n'])
    kw = kwargs_of(a)
    api = 'make'
    h = stable_hash(a)
    if a['micro'] == 'no' and h % 3 == 0:
        api = 'make_qr'
        kw.pop('micro')
    elif a['micro'] == 'yes' and not a['eci'] and h % 3 == 0:
        api = 'make_micro'
        kw.pop('micro')
        kw.pop('eci', None)
    return call(api, content, **kw)


# ------------------------------------------------------------------ abstraction of concrete calls (for trace validation)
def policy_bytes(p):
    if p['kind'] in ('bytes', 'int'):
        return p['raw'], 'iso8859-1' if p['req_enc'] == 'none' else p['req_enc']
    if p['hanzi']:
        return p['gb2312'], 'gb2312'
    if p['req_enc'] != 'none':
        return p['req'], p['req_enc']
    if p['latin1_ok']:
        return p['latin1'], 'iso8859-1'
    if p['sjis_ok']:
        return p['sjis'], 'shift_jis'
    return p['utf8'], 'utf-8'


def norm_req(c):
    kw = c['kw']
    api = c['api']
    micro = kw.get('micro')
    if api == 'make_qr':
        micro = False
    elif api == 'make_micro':
        micro = True
    v = kw.get('version')
    e = kw.get('error')
    m = kw.get('mode')
    return {'version': 99 if v is None else symobs.version_int(v.upper() if isinstance(v, str) and not v.isdigit() else int(v)),
            'error': '-' if e is None else (LEVEL_OF_INDICATOR[e] if isinstance(e, int) else str(e).upper()),
            'mode': 'none' if m is None else str(m).lower(),
            'micro': 'none' if micro is None else ('yes' if micro else 'no'),
            'eci': bool(kw.get('eci', False)), 'boost': bool(kw.get('boost_error', True))}


def decide_observation(c):
    """Observation of a single-part call for Trace_Decide."""
    o = symobs.observe(c, props=[])
    p = o['exp']['parts'][0]
    b, enc = policy_bytes(p)
    args = norm_req(c)
    args.update({'bytes': b, 'nondefault': enc != 'iso8859-1'})
    o['args'] = args
    o.pop('exp')
    o['_cost'] = 1
    return o


def _dobs(c):
    return decide_observation(c)


def observe_decide(calls):
    import multiprocessing as mp
    if len(calls) < 8:
        return [decide_observation(c) for c in calls]
    with mp.get_context('fork').Pool(common.NCPU) as pool:
        return pool.map(_dobs, calls, chunksize=max(1, len(calls) // (common.NCPU * 8)))


def judge_decide(rep, observations, tags, key_fn=None):
    verdicts, st = common.validate_observations(rep.pid, 'Trace_Decide', observations, timeout=3000, tag='decide')
    for o in observations:
        o.pop('res', None) if False else None
    rep.add_trace_stats(st, len(observations))
    for o in observations:
        v = verdicts[o['tid']]
        fails = sorted(c for (p, c) in v['fails'] if p in tags)
        f = v['facts']
        pred = f['predicted']
        k = key_fn(o, v) if key_fn else ('D', f['cls'], min(f['n'], 40), json.dumps(pred, sort_keys=True), o['args']['version'], o['args']['error'],
                                          o['args']['micro'], o['args']['eci'], o['args']['boost'], o['args']['mode'])
        if k is not None:
            rep.keys.add(k)
        rep.sample({'call': engine.brief_call(o['_call']), 'abstract': {'cls': f['cls'], 'n': f['n']},
                    'spec_predicts': pred, 'observed': {'status': f['status'], **f['seen']}, 'tlc_fails': v['fails']})
        if fails:
            kf = engine.match_known(rep.pid, fails, v.get('devs', []), rep.known)
            if kf:
                rep.known_hit(kf, {'call': engine.brief_call(o['_call']), 'clauses': fails})
            else:
                rep.violation({'kind': 'decide', 'module': 'props_decide', 'call': o['_call'], 'failing_clauses': fails,
                               'predicted': pred, 'observed': {'outcome': o['outcome'], **f['seen']}},
                              f"{engine.brief_call(o['_call'])}: spec predicts {pred}, observed {f['status']} {f['seen']} "
                              f"{o['outcome'].get('exc', '')}; fails {fails}")
    return verdicts


def replay(pid, d):
    common.use_repo()
    o = decide_observation(d['call'])
    print('call    :', engine.brief_call(d['call']))
    print('outcome :', o['outcome'])
    verdicts, _ = common.validate_observations(pid + '_replay', 'Trace_Decide', [o], shards=1, tag='decide')
    v = verdicts[o['tid']]
    tags = {pid} if pid != 'C14' else {'C14'}
    fails = sorted(c for (p, c) in v['fails'] if p in tags)
    print('verdict :', {'failing_clauses': fails, 'facts': v['facts']})
    if not fails:
        print('the observation conforms to the specification')
        return 0
    kf = engine.match_known(pid, fails, [], common.load_known_findings())
    if kf:
        print(f"KNOWN-FINDING: property={pid} {kf['id']} {kf['what']}")
        return 0
    print(f'VIOLATION property={pid} replay=(this file)')
    return 1


# ------------------------------------------------------------------ shared driver
def run_vectors(rep, tier, tags, extra_calls=()):
    r = gen.rng(common.seed(), rep.pid, 'decide')
    small_cfg = 'Decide_small_quick.cfg' if tier == 'quick' else 'Decide_small.cfg'
    design_run(rep, small_cfg, 'exhaustive small scope: all argument vectors, invariants C04_*, C05_*, C07_*, C14_Excluded on the model', coverage=True)
    vecs = design_run(rep, 'Decide_boundary_quick.cfg' if tier == 'quick' else 'Decide_boundary_all.cfg',
                      'capacity boundaries of every (class, version, level): invariants + export of test vectors')
    sel = select(vecs, tier)
    if tier == 'quick':
        # every (class, version, level) capacity boundary of ALL versions, both sides, executed without sampling
        slim = design_run(rep, 'Decide_boundary_slim.cfg', 'slim boundary scope: every (class, version, level) of all 44 versions, at and just above capacity')
        rep.notes['slim_boundary_vectors_all_versions'] = len(slim)
        vecs = vecs + slim
        sel = sel + slim
    rep.notes['vectors_exported_by_tlc'] = len(vecs)
    rep.notes['vectors_executed'] = len(sel)
    calls = [vector_call(r, v) for v in sel] + list(extra_calls)
    rep.evaluations += len(calls)
    # streamed in chunks: observations (with matrices) are judged and dropped, so that thorough tiers stay within memory
    step = 40000
    for i in range(0, len(calls), step):
        obs = observe_decide(calls[i:i + step])
        judge_decide(rep, obs, tags)
        del obs
    rep.trusted.append('Python codecs for the text -> bytes policy of the abstraction function')
    return None


# =============================================================================================== C04
def run_c04(rep, tier):
    r = gen.rng(common.seed(), 'C04')
    run_vectors(rep, tier, {'C04'})
    # symbol-level clauses on arbitrary (also multi-part) content: never truncated, smallest version for the segmentation used
    calls = []
    for _ in range(150 if tier == 'quick' else 1500):
        k = r.randint(1, 4)
        parts = [gen.content_for_mode(r, r.choice(('numeric', 'alphanumeric', 'byte', 'kanji')), r.randint(1, 30)) for _ in range(k)]
        kw = {'micro': r.choice((None, True, False)), 'boost_error': r.choice((True, False))}
        e = r.choice((None, 'L', 'M', 'Q', 'H'))
        if e:
            kw['error'] = e
        calls.append(call('make', parts if k > 1 else parts[0], **kw))
        if k > 1 and len(calls) % 2:
            # the parts as a tuple / generator / iterator / map object: sized as the parts, not as the text of the container
            calls.append(symobs.in_container(calls[-1], symobs.CONTAINERS[len(calls) % 4]))
    for n in (7089, 7090, 4296, 4297, 2953, 2954, 1817, 1818):
        mode = {7089: 'numeric', 7090: 'numeric', 4296: 'alphanumeric', 4297: 'alphanumeric', 2953: 'byte', 2954: 'byte', 1817: 'kanji', 1818: 'kanji'}[n]
        calls.append(call('make', gen.content_for_mode(r, mode, n)))
    # a requested version above the smallest fitting one, in the same and in a higher character-count range (1-9 / 10-26 / 27-40), with the
    # content at / one character above what the HIGHER levels of that version hold: the level may be raised, the content never cut
    for v in (2, 9, 10, 11, 26, 27, 28, 40) if tier == 'quick' else range(2, 41):
        for mode in ('numeric', 'alphanumeric', 'byte', 'kanji'):
            for e in ('M', 'Q', 'H'):
                for n in (T.max_chars(v, e, mode), T.max_chars(v, e, mode) + 1):
                    for kw in ({}, {'error': 'L'}) if e != 'M' else ({},):
                        calls.append(call('make', gen.content_for_mode(r, mode, n), version=v, **kw))
    calls += gen.eci_boundary_calls(call, tier == 'quick')
    mp_calls = gen.multipart_boundary_calls(call, tier == 'quick')
    calls += mp_calls
    calls += [symobs.in_container(c, symobs.CONTAINERS[i % 4]) for i, c in enumerate(mp_calls) if c['content']['t'] == 'list' and (tier == 'thorough' or i % 3 == 0)]
    for kind in symobs.CONTAINERS:
        # a numeric message in parts fits M1 / a long one needs version 33 / one that fits nothing overflows, whatever carries the parts
        calls.append(symobs.in_container(call('make', ['123', '45']), kind))
        calls.append(symobs.in_container(call('make', [gen.digits(r, 2000), gen.digits(r, 2000), gen.digits(r, 1500)]), kind))
        calls.append(symobs.in_container(call('make', [gen.latin1(r, 2000), gen.latin1(r, 1000)]), kind))
        calls.append(symobs.in_container(call('make', ['AB', 'CD'], micro=True), kind))
    obs = symobs.observe_many(calls, props=['C04'])
    # one process, in order: symbols of different kinds with the same capacity and the same stream length, alternately
    sess = gen.same_capacity_sessions(call, gen.rng(common.seed(), 'C04', 'session'), tier == 'quick')
    obs += symobs.observe_many(sess, props=['C04'], procs=1)
    calls = calls + sess
    for o in obs:
        o['exp']['req'] = norm_req(o['_call'])
    rep.evaluations += len(calls)
    rep.notes['symbol_level_calls'] = len(calls)
    rep.notes['symbol_level_refused'] = sum(1 for o in obs if 'res' not in o)

    def key(o, v):
        f = v['facts']
        return ('S', f['v'], f['level'], tuple(f['modes'])) if 'v' in f else None
    engine.judge_symbols(rep, obs, {'C04'}, key, None)
    rep.rule = ('spec -> code: TLC enumerates, from Decide.tla, for every (content class, version, level) the lengths just below / at / just '
                'above the capacity x requested version {none, same, smaller, larger} x requested level x micro x boost x eci with the '
                'predicted outcome; each vector is concretised, executed, and the observation validated against the model by TLC '
                '(version read from the matrix size and format information). Long contents are sampled deterministically. '
                'Plus symbol-level clauses (never truncated; smallest version for the segmentation used) on random multi-part contents. '
                'distinct non-trivial = distinct (class, capped length, prediction, request) tuples')
    rep.exhaustive = False


# =============================================================================================== C05
def run_c05(rep, tier):
    r = gen.rng(common.seed(), 'C05')
    # boundaries of *every level* of the chosen version: lengths at the capacity of each level
    extra = []
    for v in ([-2, -1, 0, 1, 2, 5, 9, 10, 26, 27, 40] if tier == 'quick' else list(range(-2, 41))):
        for e in T.levels_of(v):
            for mode in ('numeric', 'alphanumeric', 'byte'):
                nmax = T.max_chars(v, e, mode)
                if nmax < 1:
                    continue
                for n in (nmax, nmax + 1, nmax - 1):
                    if n < 1:
                        continue
                    c = gen.content_for_mode(r, mode, n)
                    for req in (None, 'L', 'M', 'Q', 'H'):
                        for boost in (True, False):
                            kw = {'version': T.version_name(v), 'boost_error': boost}
                            if req:
                                kw['error'] = req
                            extra.append(call('make', c, **kw))
                            if tier == 'thorough' or (n == nmax and boost):
                                kw2 = {k: x for k, x in kw.items() if k != 'version'}
                                extra.append(call('make', c, **kw2))
    # every cell of the capacity table as the boosting target: content that fills (v, e) exactly, version requested, no level requested
    for v in range(1, 41):
        for e in ('M', 'Q', 'H'):
            mode = ('byte', 'numeric', 'alphanumeric')[(v + 'MQH'.index(e)) % 3]
            nmax = T.max_chars(v, e, mode)
            extra.append(call('make', gen.content_for_mode(r, mode, nmax), version=v))
            extra.append(call('make', gen.content_for_mode(r, mode, nmax - 1), version=v, error='L'))
    # the level may also be given as the integer constant of segno.consts (= the ISO level indicator: L=1, M=0, Q=3, H=2)
    for ind in (1, 0, 3, 2):
        for c in ('12345', 'HELLO WORLD', 'Hello world, hello', gen.latin1(r, 60)):
            for boost in (True, False):
                extra.append(call('make', c, error=ind, boost_error=boost))
                extra.append(call('make', c, error=ind, boost_error=boost, micro=False))
    run_vectors(rep, tier, {'C05'}, extra)
    calls = []
    for _ in range(150 if tier == 'quick' else 1500):
        k = r.randint(1, 3)
        parts = [gen.content_for_mode(r, r.choice(('numeric', 'alphanumeric', 'byte', 'kanji')), r.randint(1, 25)) for _ in range(k)]
        kw = {'micro': r.choice((None, True, False)), 'boost_error': r.choice((True, False))}
        e = r.choice((None, 'L', 'M', 'Q', 'H', 'l', 'q'))
        if e:
            kw['error'] = e
        calls.append(call('make', parts if k > 1 else parts[0], **kw))
    # ECI with alias spellings of the encodings, close to the level boundaries of version 1 and 2
    for enc in ('latin1', 'L1', 'ISO-8859-1', 'utf-8', 'UTF8', 'iso-8859-15'):
        for n in range(5, 18):
            calls.append(call('make', 'ä' * n if enc not in ('utf-8', 'UTF8') else 'ä' * (n // 2), encoding=enc, eci=True, micro=False))
    # pairs / triples of active options, and an ECI header with boosting on at every length
    calls += gen.option_combination_calls(call)
    calls += [c for c in gen.eci_boundary_calls(call, True) if 'boost_error' not in c['kw'] and 'version' not in c['kw']]
    obs = symobs.observe_many(calls, props=['C05'])
    # one process, in order: symbols of different kinds with the same capacity and the same stream length, alternately
    sess = gen.same_capacity_sessions(call, gen.rng(common.seed(), 'C05', 'session'), tier == 'quick')
    obs += symobs.observe_many(sess, props=['C05'], procs=1)
    calls = calls + sess
    # every symbol of a sequence is boosted on its own
    for c in (call('make_sequence', 'ABCDEFGHIJKLMNO', symbol_count=2), call('make_sequence', gen.alnum(r, 31), symbol_count=2),
              call('make_sequence', gen.digits(r, 77), symbol_count=3), call('make_sequence', gen.latin1(r, 41), version=1, error='L'),
              call('make_sequence', gen.alnum(r, 45), symbol_count=4, error='M'), call('make_sequence', gen.latin1(r, 29), symbol_count=3, boost_error=False),
              # the single-symbol shortcut of make_sequence (content fits one symbol of the requested version): level and boosting as for make()
              call('make_sequence', 'Hello', version=5, error='L', boost_error=False), call('make_sequence', 'Hello', version=5, boost_error=False),
              call('make_sequence', 'Hello', version=5, error='M', boost_error=False), call('make_sequence', 'Hello', version=5, error='Q'),
              call('make_sequence', gen.digits(r, 20), version=2, error='Q', boost_error=False), call('make_sequence', gen.alnum(r, 10), version=1, boost_error=False),
              call('make_sequence', gen.latin1(r, 10), version=3), call('make_sequence', gen.kanji(r, 4), version=2, error='M', boost_error=False)):
        so = symobs.observe_sequence_symbols(c, props=['C05'])
        for o in so:
            o['exp']['parts'] = o['exp']['parts'][:1]
        obs += so
    for o in obs:
        o['exp']['req'] = norm_req(o['_call']) if o['_call']['api'] != 'make_sequence' else dict(
            norm_req(dict(o['_call'], kw={k: x for k, x in o['_call']['kw'].items() if k not in ('symbol_count', 'version')})), version=99, micro='no')
    rep.evaluations += len(calls) + 6

    def key(o, v):
        f = v['facts']
        return ('S', f['v'], f['level'], o['exp']['req']['error'], o['exp']['req']['boost']) if 'v' in f else None
    engine.judge_symbols(rep, obs, {'C05'}, key, None)
    rep.rule = ('the Decide vectors (see C04) judged on the level clauses, plus for each version the content lengths at the capacity of EACH '
                'of its levels x requested level {None, L, M, Q, H} x boost, with and without requested version; the level is read from '
                'the format information of the matrix; plus symbol-level clauses on random multi-part contents')


# =============================================================================================== C07
def c07_calls(tier, r):
    calls = []
    for b in range(256):
        calls.append(call('make', bytes([b])))
    if tier == 'quick':
        trails = (0x00, 0x3f, 0x40, 0x7e, 0x7f, 0x80, 0xfc, 0xfd, 0xff)
        pairs = [(hi, lo) for hi in range(256) for lo in trails]
    else:
        pairs = [(hi, lo) for hi in range(256) for lo in range(256)]
    for hi, lo in pairs:
        calls.append(call('make', bytes([hi, lo])))
    # requested mode hanzi: every lead byte x the trail bytes around the range edges (GB2312 rows A1-AA and B0-FA; AB-AF is a gap)
    for hi in range(0x9f, 0x100):
        for lo in (0xa0, 0xa1, 0xa2, 0xcf, 0xfd, 0xfe, 0xff) if tier == 'quick' else range(0x9f, 0x100):
            calls.append(call('make', bytes([hi, lo]), mode='hanzi'))
    # three / four byte mixes around the class boundaries
    seeds = [b'12', b'1A', b'A:', b'a1', b'\x81\x40', b'\x9f\xfc', b'\xe0\x40', b'\xeb\xbf', b'\xeb\xc0', b'\x81\x3f', b'\xa0\x40', b' $', b'%*']
    for s1 in seeds:
        for s2 in seeds:
            calls.append(call('make', s1 + s2))
        calls.append(call('make', s1 + b'0'))
        # a class followed by one control byte (a pattern anchored with $ instead of \\Z accepts a trailing line feed)
        for tail in (b'\n', b'\r', b'\x00', b'\n\n', b'\x0b'):
            calls.append(call('make', s1 + tail))
            calls.append(call('make', s1 + s1 + tail))
            calls.append(call('make', tail + s1))
    for base in ('123', 'AB', '\u70b9', '\u70b9\u8317', gen.kanji(r, 4)):
        for tail in ('\n', '\r', '\r\n', '\x00'):
            for kw in ({}, {'micro': False}, {'mode': 'kanji'}, {'mode': 'numeric'}, {'mode': 'alphanumeric'}):
                calls.append(call('make', base + tail, **kw))
    # text per class, automatic mode, with / without micro
    for n in (1, 2, 3, 5, 8):
        for mode in ('numeric', 'alphanumeric', 'byte', 'kanji'):
            for micro in (None, False, True):
                calls.append(call('make', gen.content_for_mode(r, mode, n), micro=micro))
        calls.append(call('make', gen.sjis_text(r, n)))
        calls.append(call('make', gen.utf8_text(r, n)))
        # the same with ECI requested: the mode is still the first applicable one (an ECI header only accompanies byte segments)
        for mode in ('numeric', 'alphanumeric', 'byte', 'kanji'):
            calls.append(call('make', gen.content_for_mode(r, mode, n), eci=True))
            calls.append(call('make', gen.content_for_mode(r, mode, n), eci=True, micro=False, error='M'))
        calls.append(call('make', gen.sjis_text(r, n), eci=True))
        calls.append(call('make', gen.utf8_text(r, n), eci=True))
        calls.append(call('make', gen.kanji(r, n).encode('shift_jis'), eci=True))
        calls.append(call('make', int(gen.digits(r, n)) + 10 ** n))
    # characters that str.isdigit() / isdecimal() / isalnum() / upper() take for digits and letters but that are none in the sense of ISO
    # Table 5 / 6: full-width digits and letters (Kanji mode), Arabic-Indic and Devanagari digits (UTF-8 bytes), superscripts, fractions
    # and Roman numerals (Latin-1 / UTF-8 bytes); a requested numeric / alphanumeric mode must refuse them
    for txt in ('\uff11\uff12\uff13', '\u0661\u0662\u0663', '\u00b2\u00b3', '2\u00b3', '\u00b2', '\u0967\u0968\u0969', '\uff21\uff22\uff23', '\u2167', '\u00bd',
                '1\uff12', '\uff11 2', 'A\uff22', '\u2460\u2461', '\u0660', '12\u0663', '\u00b9\u00b2\u00b3456', '\uff10' * 8, 'ǅ', 'ß', 'ı'):
        for kw in ({}, {'micro': False}, {'mode': 'numeric'}, {'mode': 'alphanumeric'}, {'mode': 'numeric', 'micro': False}, {'eci': True}):
            calls.append(call('make', txt, **kw))
    # kanji content with the encoding given in various spellings (no requested mode): still the most compact mode
    for enc in ('shift_jis', 'Shift_JIS', 'sjis', 'shift-jis', 'SJIS', 'cp932'):
        calls.append(call('make', gen.kanji(r, 3), encoding=enc))
        calls.append(call('make', gen.kanji(r, 2).encode('shift_jis'), encoding=enc))
        calls.append(call('make', '12345', encoding=enc))
        calls.append(call('make', 'AB CD', encoding=enc, micro=False))
    # every requested mode x {representable, not representable} x version
    contents = {'num': '0123456', 'alnum': 'AB CD', 'kanji': gen.kanji(r, 3), 'l1': 'abcä', 'x8': 'őx', 'hanzi': gen.hanzi(r, 3),
                'digits_bytes': b'123', 'kanji_bytes': gen.kanji(r, 2).encode('shift_jis'), 'bad_trail': b'\x82\x00\x82\x3f',
                'odd_kanji': gen.kanji(r, 2).encode('shift_jis') + b'\x88', 'odd_hanzi': gen.hanzi(r, 2).encode('gb2312') + b'\xb0',
                'one_byte': b'\x93', 'hanzi_bad_lo': b'\xa2\x00\xb0\xa1'}
    for name, c in contents.items():
        for mode in MODES:
            for ver in (None, 'M1', 'M2', 'M3', 'M4', 1, 10, 27):
                for m in (mode, mode.upper()):
                    kw = {'mode': m}
                    if ver is not None:
                        kw['version'] = ver
                    calls.append(call('make', c, **kw))
    return calls


def run_c07(rep, tier):
    r = gen.rng(common.seed(), 'C07')
    extra = c07_calls(tier, r)
    rep.notes['byte_pair_inputs'] = 65536 if tier == 'thorough' else 2304
    run_vectors(rep, tier, {'C07'}, extra)
    # sequences: the mode is detected once for the whole message (also for messages longer than any single symbol)
    from . import props_seq
    seq_calls = []
    for kind_fn, n in ((gen.kanji, 1900), (gen.kanji, 700), (gen.digits, 7200), (gen.alnum, 4400), (gen.latin1, 3000), (gen.kanji, 12), (gen.digits, 30),
                       (gen.kanji, 3), (gen.kanji, 5), (gen.kanji, 7), (gen.kanji, 17), (gen.alnum, 7), (gen.digits, 5)):
        content = kind_fn(r, n)
        seq_calls.append(call('make_sequence', content, symbol_count=4 if n > 100 else 2))
        if n < 20:
            seq_calls.append(call('make_sequence', content, symbol_count=3))
            seq_calls.append(call('make_sequence', content * 3, version=1))
        if n > 1000:
            seq_calls.append(call('make_sequence', content, version=20 if n < 5000 else 30))
    with __import__('multiprocessing').get_context('fork').Pool(min(8, common.NCPU)) as pool:
        sobs = pool.map(props_seq.seq_observation, seq_calls, chunksize=1)
    for o in sobs:       # every one of these requests is valid: a refusal means the first applicable mode was not usable for the sequence
        if o['outcome']['status'] != 'ok':
            rep.violation({'kind': 'seq', 'module': 'props_seq', 'call': o['_call'], 'failing_clauses': ['sequence_mode_first_applicable'], 'observed': o['outcome']},
                          f"{engine.brief_call(o['_call'])} was refused: {o['outcome'].get('exc')}: {o['outcome'].get('msg', '')[:80]}")
    # a requested mode that cannot represent the whole message is refused for sequences, too - however the message is cut into chunks
    # (a stray single byte after double-byte text, a letter after digits, lower case after upper case)
    bad_calls = []
    for content, mode in (('\u6f22\u5b57A', 'kanji'), ('\u6f22\u5b57\u6f22\u5b57 ', 'kanji'), ('\u4e66\u8bfbA', 'hanzi'), ('\u4e66\u8bfb\u4e66\u8bfb1', 'hanzi'), ('1234567A', 'numeric'),
                          ('12345678 ', 'numeric'), ('ABCDEFGHa', 'alphanumeric'), ('ABCDEFGH\n', 'alphanumeric'), ('A\u6f22\u5b57', 'kanji')):
        for kw in ({'symbol_count': 2}, {'symbol_count': 3}, {'version': 1}, {'version': 1, 'symbol_count': 2}, {'version': 10}):
            bad_calls.append(call('make_sequence', content, mode=mode, **kw))
    for c in bad_calls:
        outcome, _r, syms = symobs.execute(c, time_limit=60)
        rep.keys.add(('SEQBAD', engine.brief_call(c)[:60]))
        if outcome['status'] == 'ok' or 'ValueError' not in outcome.get('mro', []):
            rep.violation({'kind': 'seq', 'module': 'props_seq', 'call': c, 'failing_clauses': ['requested_mode_not_applicable_refused'], 'observed': outcome},
                          f"{engine.brief_call(c)}: the requested mode cannot represent the message; observed {outcome['status']} {outcome.get('exc', '')}")
    rep.evaluations += len(bad_calls)
    sobs = [o for o in sobs if o['outcome']['status'] == 'ok']
    sv, st = common.validate_observations(rep.pid, 'Trace_Seq', sobs, tag='seqmode', timeout=3000)
    rep.add_trace_stats(st, len(sobs))
    rep.evaluations += len(seq_calls)
    for o in sobs:
        v = sv[o['tid']]
        fails = sorted(c for (p, c) in v['fails'] if p == 'C07')
        rep.keys.add(('SEQ', engine.brief_call(o['_call'])[:50]))
        if fails:
            rep.violation({'kind': 'seq', 'module': 'props_seq', 'call': o['_call'], 'failing_clauses': fails, 'facts': v['facts']},
                          f"{engine.brief_call(o['_call'])}: symbols carry modes {v['facts'].get('modes')}; fails {fails}")
    rep.exhaustive = False
    rep.notes['exhaustive_subspaces'] = ['all 256 one-byte inputs'] + (['all 65536 two-byte inputs'] if tier == 'thorough' else
                                                                     ['all 256 lead bytes x 9 boundary trail bytes'])
    rep.rule = ('all one-byte inputs, lead byte x boundary trail bytes (thorough: all 65 536 two-byte inputs), boundary mixes, text per class, '
                'every requested mode x {representable, not} x version {none, M1..M4, 1, 10, 27}, plus the Decide vectors; TLC classifies '
                'the bytes (Decide!ClassOfBytes), runs the model and compares the mode indicator read from the matrix, the reported '
                'mode and the refusal; distinct non-trivial = distinct (class, capped length, prediction, request) tuples')


REGISTRY = {'C04': run_c04, 'C05': run_c05, 'C07': run_c07}
