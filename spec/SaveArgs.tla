------------------------------ MODULE SaveArgs ------------------------------
(***************************************************************************)
(* C14, serialisers and command line: argument value classes of            *)
(* QRCode.save() per output kind and of the command line tool, with the    *)
(* outcome the documentation allows.  Terminal states are exported as      *)
(* vectors; observations are validated against Allowed.                    *)
(***************************************************************************)
EXTENDS Integers, Sequences, FiniteSets, TLC, Json

Kinds == {"svg", "png", "eps", "txt", "pdf", "ans", "pbm", "pam", "ppm", "tex", "xbm", "xpm"}
Raster == {"png", "pbm", "pam", "ppm", "xbm", "xpm"}
Coloured == {"svg", "png", "eps", "pdf", "pam", "ppm", "xpm"}      \* kinds whose dark / light arguments are colour values
Scaled == Kinds \ {"txt", "ans"}
ScaleCs == {"default", "two", "zero", "negative", "half", "one_and_half"}
BorderCs == {"default", "zero", "three", "negative", "fraction"}
ColourCs == {"default", "name", "hex3", "hex6", "tuple", "hex2", "hex5", "hex_bad_digit", "unknown_name", "tuple2", "tuple_256", "tuple_negative",
             "alpha_2", "empty", "hex_sign", "hex_space", "hex_minus", "hex_underscore", "hex_0x", "tuple5", "tuple6", "tuple0", "tuple1", "alpha_256", "alpha_neg", "alpha_255f"}
KindCs == {"known", "known_upper", "unknown", "empty"}
MalformedColour == {"hex2", "hex5", "hex_bad_digit", "unknown_name", "tuple2", "tuple_256", "tuple_negative", "alpha_2", "empty",
                    "hex_sign", "hex_space", "hex_minus", "hex_underscore", "hex_0x", "tuple5", "tuple6", "tuple0", "tuple1", "alpha_256", "alpha_neg", "alpha_255f"}
\* malformed colours for which a VALID colour exists that compares equal in Python: (0, 0, 0, 2.0) = (0, 0, 0, 2), (0, 0, 0, 255.0) = (0, 0, 0, 255).
\* prior = "twin": that valid colour has been serialised by the same process just before -- the outcome does not depend on it
HasValidTwin == {"alpha_2", "alpha_255f"}

VARIABLES pc, a, refusals
vars == <<pc, a, refusals>>
Init == pc = "pick" /\ a = [family |-> "none"] /\ refusals = {}
PickSave ==
  /\ pc = "pick" /\ pc' = "check"
  /\ \E k \in Kinds : \E s \in ScaleCs : \E b \in BorderCs : \E c \in ColourCs : \E w \in {"dark", "light"} : \E kc \in KindCs : \E pr \in {"none", "twin"} : \E via \in {"save", "uri", "inline"} :
       /\ (pr = "twin" => c \in HasValidTwin)
       \* the data URI methods and svg_inline are serialisers, too: they refuse what save() refuses
       /\ (via = "uri" => k \in {"svg", "png"} /\ kc = "known")
       /\ (via = "inline" => k = "svg" /\ kc = "known")
       /\ (s # "default" => k \in Scaled)
       /\ (c # "default" => k \in Coloured)
       /\ Cardinality({x \in {s, b, c} : x # "default"} \cup (IF kc \notin {"known"} THEN {"kind"} ELSE {})) <= 1      \* one deviation at a time
       /\ a' = [family |-> "save", kind |-> k, scale |-> s, border |-> b, colour |-> c, which |-> w, kindc |-> kc, prior |-> pr, via |-> via]
  /\ UNCHANGED refusals
\* command line: classes of invocations
CliCs == {"ok_file", "ok_terminal", "ok_lower_micro_version", "ok_upper_micro_version", "ok_micro_flag", "ok_lower_error", "ok_mode_upper", "bad_version", "H_with_micro_version", "overflow_version_1", "numeric_mode_for_text", "pattern_9",
          "symbol_count_17", "eci_unavailable_micro", "version_M5", "seq_without_version"}
PickCli == /\ pc = "pick" /\ pc' = "check"
           /\ \E c \in CliCs : a' = [family |-> "cli", cls |-> c]
           /\ UNCHANGED refusals
Check ==
  /\ pc = "check" /\ pc' = "done" /\ UNCHANGED a
  /\ refusals' =
       IF a.family = "save" THEN
            (IF a.kindc \in {"unknown", "empty"} THEN {"unknown output kind"} ELSE {})
            \cup (IF a.scale \in {"zero", "negative"} THEN {"scale not positive"} ELSE {})
            \cup (IF a.scale = "half" /\ a.kind \in Raster THEN {"raster scale below 1"} ELSE {})
            \cup (IF a.border \in {"negative", "fraction"} THEN {"border negative or fractional"} ELSE {})
            \cup (IF a.colour \in MalformedColour THEN {"malformed colour"} ELSE {})
       ELSE IF a.cls \in {"ok_file", "ok_terminal", "ok_lower_micro_version", "ok_upper_micro_version", "ok_micro_flag", "ok_lower_error", "ok_mode_upper"} THEN {} ELSE {a.cls}
Next == PickSave \/ PickCli \/ Check
Spec == Init /\ [][Next]_vars
Done == pc = "done"
\* save(): a symbol document or ValueError; command line: exit status 0 with output, or 1 with the message and no traceback
Allowed == IF refusals = {} THEN {"ok"} ELSE {"ValueError"}
RefusedIffMalformed == Done /\ a.family = "save" =>
    (Allowed = {"ValueError"} <=> (a.kindc \in {"unknown", "empty"} \/ a.scale \in {"zero", "negative"} \/ (a.scale = "half" /\ a.kind \in Raster)
                                    \/ a.border \in {"negative", "fraction"} \/ a.colour \in MalformedColour))
Export == Done => PrintT(<<"VECTOR", ToJson([args |-> a, allowed |-> Allowed, why |-> refusals])>>)
=============================================================================
