------------------------------- MODULE Purity -------------------------------
(***************************************************************************)
(* C15: encoding is pure.  Threads execute calls of make(); a call is the  *)
(* sequence of pipeline stages of encoder.encode() / _encode() (one spec   *)
(* action per function of the implementation, so that function entries are *)
(* the points at which a schedule may switch threads).  The state models   *)
(* exactly what the property is about:                                     *)
(*                                                                         *)
(*   tables     the module-level tables of the library                     *)
(*   objects    heap objects with an owner (a thread, "lib", or "ret" for  *)
(*              returned symbols) and an abstract content (the history of  *)
(*              writes that produced it)                                   *)
(*   returned   the symbols handed out so far                              *)
(*   memo       history variable: call -> content of its first result      *)
(*                                                                         *)
(* Properties: tables never change, returned symbols never change, a       *)
(* thread only writes objects it owns, equal calls give equal results.     *)
(* The deviation Dev_SharedScratch (a stage working on a library-owned     *)
(* object instead of a fresh one) is what a module-level cache or scratch  *)
(* buffer introduces; TLC finds the violating interleaving when it is      *)
(* enabled (negative control).                                             *)
(*                                                                         *)
(* hist records the schedule; terminal states are exported as schedules    *)
(* that the harness replays with real threads (spec -> code).              *)
(***************************************************************************)
EXTENDS Integers, Sequences, FiniteSets, TLC, Json

CONSTANTS Thread, Calls, MaxCalls, MaxSwitches, AllowDev

Stages == << "normalize", "prepare", "find_version", "boost", "write_segment", "terminate", "pad_bits", "pad_codewords",
             "blocks", "interleave", "alloc_matrix", "finder", "alignment", "place",
             "copy_rows", "apply_mask", "score", "choose", "format", "version", "return" >>
NStages == Len(Stages)
Writes(stage) == CASE stage \in {"write_segment", "terminate", "pad_bits", "pad_codewords"} -> "buffer"
                   [] stage \in {"blocks", "interleave"} -> "scratch"
                   [] stage \in {"finder", "alignment", "place", "format", "version"} -> "matrix"
                   [] stage = "apply_mask" -> "candidate"
                   [] OTHER -> "none"
Kinds == {"buffer", "scratch", "matrix", "candidate"}

VARIABLES tables, thr, owner, content, returned, memo, nobj, ncalls, hist, last, switches
vars == <<tables, thr, owner, content, returned, memo, nobj, ncalls, hist, last, switches>>
Idle == [call |-> "none", pc |-> 0, objs |-> [k \in Kinds |-> 0]]
Init == /\ tables = "T0" /\ thr = [t \in Thread |-> Idle]
        /\ owner = [o \in {0} |-> "lib"] /\ content = [o \in {0} |-> <<"template">>]
        /\ returned = <<>> /\ memo = [c \in {} |-> <<>>] /\ nobj = 0 /\ ncalls = 0
        /\ hist = <<>> /\ last = "none" /\ switches = 0
Sched(t, what) == /\ hist' = Append(hist, <<t, what>>)
                  /\ last' = t
                  /\ switches' = IF last \notin {"none", t} /\ thr[last].pc # 0 THEN switches + 1 ELSE switches
Start(t, c) == /\ thr[t].pc = 0 /\ ncalls < MaxCalls
               /\ thr' = [thr EXCEPT ![t] = [Idle EXCEPT !.call = c, !.pc = 1]]
               /\ ncalls' = ncalls + 1
               /\ Sched(t, "call:" \o c)
               /\ UNCHANGED <<tables, owner, content, returned, memo, nobj>>
Alloc(t, kind, init) ==
   /\ nobj' = nobj + 1
   /\ owner' = (nobj + 1 :> t) @@ owner
   /\ content' = (nobj + 1 :> init) @@ content
   /\ thr' = [thr EXCEPT ![t].objs[kind] = nobj + 1, ![t].pc = @ + 1]
Step(t) ==
  /\ thr[t].pc >= 1 /\ thr[t].pc <= NStages
  /\ LET st == Stages[thr[t].pc] c == thr[t].call IN
     /\ Sched(t, st)
     /\ CASE st = "prepare" -> Alloc(t, "buffer", <<c>>) /\ UNCHANGED <<tables, returned, memo, ncalls>>
          [] st = "blocks" ->
               (\/ Alloc(t, "scratch", <<c>>)
                \/ (AllowDev /\ thr' = [thr EXCEPT ![t].objs["scratch"] = 0, ![t].pc = @ + 1] /\ UNCHANGED <<owner, nobj>>
                    /\ content' = [content EXCEPT ![0] = <<"template", c>>]))          \* Dev_SharedScratch: library-owned working buffer
               /\ UNCHANGED <<tables, returned, memo, ncalls>>
          [] st = "alloc_matrix" -> Alloc(t, "matrix", <<c>>) /\ UNCHANGED <<tables, returned, memo, ncalls>>
          [] st = "copy_rows" -> Alloc(t, "candidate", content[thr[t].objs["matrix"]] \o content[thr[t].objs["scratch"]])
                                 /\ UNCHANGED <<tables, returned, memo, ncalls>>
          [] st = "return" ->
               LET o == thr[t].objs["candidate"] IN
               /\ returned' = Append(returned, [call |-> c, obj |-> o])
               /\ owner' = [owner EXCEPT ![o] = "ret"]
               /\ memo' = IF c \in DOMAIN memo THEN memo ELSE (c :> content[o]) @@ memo
               /\ thr' = [thr EXCEPT ![t] = Idle]
               /\ UNCHANGED <<tables, content, nobj, ncalls>>
          [] OTHER ->
               LET k == Writes(st) IN
               /\ IF k = "none" THEN UNCHANGED content
                  ELSE content' = [content EXCEPT ![thr[t].objs[k]] = Append(@, st)]
               /\ thr' = [thr EXCEPT ![t].pc = @ + 1]
               /\ UNCHANGED <<tables, owner, returned, memo, nobj, ncalls>>
Next == \E t \in Thread : (\E c \in Calls : Start(t, c)) \/ Step(t)
Spec == Init /\ [][Next]_vars

TablesConstant == [][tables' = tables]_vars
ReturnedImmutable == [][\A i \in DOMAIN returned : content'[returned[i].obj] = content[returned[i].obj]]_vars
OwnWritesOnly == [][\A o \in DOMAIN content : content'[o] # content[o] => \E t \in Thread : owner[o] = t /\ thr[t].pc # thr'[t].pc]_vars
Deterministic == \A i \in DOMAIN returned : content[returned[i].obj] = memo[returned[i].call]
LibUntouched == content[0] = <<"template">>
BoundedSwitches == switches <= MaxSwitches
Finished == ncalls = MaxCalls /\ \A t \in Thread : thr[t].pc = 0
Export == Finished => PrintT(<<"VECTOR", ToJson([schedule |-> hist, switches |-> switches])>>)
\* the exhaustive design configuration ignores the schedule bookkeeping
View == <<tables, thr, owner, content, returned, memo, nobj, ncalls>>
=============================================================================
