CONSTANTS
  Thread = {t1, t2}
  Calls = {"A", "B"}
  MaxCalls = 3
  MaxSwitches = 99
  AllowDev = TRUE
SPECIFICATION Spec
VIEW View
CHECK_DEADLOCK FALSE
INVARIANT Deterministic
INVARIANT LibUntouched
PROPERTY TablesConstant
PROPERTY ReturnedImmutable
PROPERTY OwnWritesOnly
