CONSTANTS
  Scope = "trace"
  BVersions = {}
  SmallMaxN = 0
  SmallVersions = {}
  VSels = {}
  Slim = FALSE
  Variants = {}
INIT TraceInit
NEXT TraceNext
CHECK_DEADLOCK FALSE
POSTCONDITION AllJudged
