------------------------------- MODULE Helpers -------------------------------
(***************************************************************************)
(* C16: the payloads of the helper factories, as grammars over sequences   *)
(* of code points.                                                         *)
(*                                                                         *)
(*   Scan          MeCard / WIFI scanner: a three-state machine (key,      *)
(*                 value, escape) splitting at unescaped ';' and ':'       *)
(*   Build/Escape  reference builder; RoundTrip is model-checked for all   *)
(*                 field lists over the delimiter / escape alphabet        *)
(*   VLines        vCard content lines (CRLF separated, unescaped values)  *)
(*   geo / mailto  URI grammar, percent decoding                           *)
(*   EPC           line layout of EPC069-12 version 002                    *)
(***************************************************************************)
EXTENDS Integers, Sequences, FiniteSets, SequencesExt, TLC

BS == 92  SEMI == 59  COLON == 58  QUOTE == 34  COMMA == 44  LF == 10  CR == 13
Str(s) == s        \* texts are sequences of code points
Iota(n) == [k \in 1..n |-> k]
StartsWith(s, p) == Len(s) >= Len(p) /\ SubSeq(s, 1, Len(p)) = p
Drop(s, n) == SubSeq(s, n + 1, Len(s))
Concat(ss) == FoldLeft(LAMBDA a, x : a \o x, <<>>, ss)
\* ASCII helper: code points of short literal strings used below
WIFI == <<87, 73, 70, 73, 58>>                    \* "WIFI:"
MECARD == <<77, 69, 67, 65, 82, 68, 58>>          \* "MECARD:"

(* ---------------- MeCard / WIFI ---------------- *)
Special == {BS, SEMI, COLON, QUOTE}
Escape(s) == FoldLeft(LAMBDA a, ch : IF ch \in Special THEN a \o <<BS, ch>> ELSE Append(a, ch), <<>>, s)
\* scanner over the body after the scheme prefix: fields separated by unescaped ';', key / value by the first unescaped ':'
Scan(body) ==
  LET step(st, ch) ==
        IF st.esc THEN (IF st.inval THEN [st EXCEPT !.val = Append(@, ch), !.esc = FALSE] ELSE [st EXCEPT !.key = Append(@, ch), !.esc = FALSE])
        ELSE IF ch = BS THEN [st EXCEPT !.esc = TRUE]
        ELSE IF ch = SEMI THEN [st EXCEPT !.fields = Append(@, <<st.key, st.val>>), !.key = <<>>, !.val = <<>>, !.inval = FALSE]
        ELSE IF ch = COLON /\ ~st.inval THEN [st EXCEPT !.inval = TRUE]
        ELSE IF st.inval THEN [st EXCEPT !.val = Append(@, ch)] ELSE [st EXCEPT !.key = Append(@, ch)]
      fin == FoldLeft(step, [fields |-> <<>>, key |-> <<>>, val |-> <<>>, inval |-> FALSE, esc |-> FALSE], body)
  IN [fields |-> fin.fields, clean |-> ~fin.esc /\ fin.key = <<>> /\ fin.val = <<>> /\ ~fin.inval]
Build(fields) == FoldLeft(LAMBDA a, f : a \o f[1] \o <<COLON>> \o Escape(f[2]) \o <<SEMI>>, <<>>, fields) \o <<SEMI>>
NonEmpty(fields) == SelectSeq(fields, LAMBDA f : f # << <<>>, <<>> >>)

\* expected fields of a WIFI payload; a: [ssid, password (<<>> or <<text>>), security (<<>> or <<text>>), hidden]
Upper(s) == [i \in 1..Len(s) |-> IF s[i] >= 97 /\ s[i] <= 122 THEN s[i] - 32 ELSE s[i]] \o <<>>
NOPASS == <<110, 111, 112, 97, 115, 115>>
WifiFields(a) ==
  (IF a.security # <<>> /\ a.security[1] # <<>> THEN << << <<84>>, IF a.security[1] = NOPASS THEN NOPASS ELSE Upper(a.security[1]) >> >> ELSE <<>>)
  \o << << <<83>>, a.ssid >> >>
  \o (IF a.password # <<>> THEN << << <<80>>, a.password[1] >> >> ELSE <<>>)
  \o (IF a.hidden THEN << << <<72>>, <<116, 114, 117, 101>> >> >> ELSE <<>>)
WifiFails(a, payload) ==
  LET sc == Scan(Drop(payload, 5)) IN
  {c \in {"scheme", "scan_clean", "fields_exact"} :
     CASE c = "scheme" -> ~StartsWith(payload, WIFI)
       [] c = "scan_clean" -> ~sc.clean
       [] c = "fields_exact" -> NonEmpty(sc.fields) # WifiFields(a)}

\* MeCard: a.fields is the list of supplied <<key, value>> pairs in MeCard order (N, SOUND, TEL.., TELAV.., EMAIL.., NICKNAME, BDAY,
\* URL.., ADR, MEMO); built by MecardFields from the argument record (every optional argument is a sequence of values)
K(s) == s
MecardFields(a) ==
  LET one(key, vals) == [i \in 1..Len(vals) |-> <<key, vals[i]>>] \o <<>>
      adr == IF \E i \in 1..7 : a.adr[i] # <<>> THEN << <<a.k.ADR, FoldLeft(LAMBDA acc, i : acc \o (IF i > 1 THEN <<COMMA>> ELSE <<>>) \o a.adr[i], <<>>, Iota(7))>> >> ELSE <<>>
  IN one(a.k.N, <<a.name>>) \o one(a.k.SOUND, a.reading) \o one(a.k.TEL, a.phone) \o one(a.k.TELAV, a.videophone) \o one(a.k.EMAIL, a.email)
     \o one(a.k.NICKNAME, a.nickname) \o one(a.k.BDAY, a.birthday) \o one(a.k.URL, a.url) \o adr \o one(a.k.MEMO, a.memo)
MecardFails(a, payload) ==
  LET sc == Scan(Drop(payload, 7)) IN
  {c \in {"scheme", "scan_clean", "fields_exact"} :
     CASE c = "scheme" -> ~StartsWith(payload, MECARD)
       [] c = "scan_clean" -> ~sc.clean
       [] c = "fields_exact" -> NonEmpty(sc.fields) # MecardFields(a)}

(* ---------------- vCard ---------------- *)
\* split at CRLF
SplitCRLF(s) ==
  LET fin == FoldLeft(LAMBDA st, ch : IF ch = LF /\ st.cur # <<>> /\ st.cur[Len(st.cur)] = CR
                                       THEN [lines |-> Append(st.lines, SubSeq(st.cur, 1, Len(st.cur) - 1)), cur |-> <<>>]
                                       ELSE [st EXCEPT !.cur = Append(@, ch)],
                      [lines |-> <<>>, cur |-> <<>>], s)
  IN [lines |-> fin.lines, rest |-> fin.cur]
\* content line "NAME[;params]:value" -> <<name-with-params, raw value>> (split at the first ':')
SplitLine(line) ==
  LET i == FoldLeft(LAMBDA a, k : IF a = 0 /\ line[k] = COLON THEN k ELSE a, 0, Iota(Len(line))) IN
  IF i = 0 THEN <<line, <<>>, FALSE>> ELSE <<SubSeq(line, 1, i - 1), Drop(line, i), TRUE>>
\* vCard 3.0 text value un-escaping: \, \; \\ \n \N
\* (a backslash that does not start one of these sequences stands for itself: the statement of C16 does not ask for
\*  backslash escaping in vCard values)
VUnescape(s) ==
  LET fin == FoldLeft(LAMBDA st, ch : IF st.esc THEN (IF ch \in {110, 78} THEN [out |-> Append(st.out, LF), esc |-> FALSE]
                                                      ELSE IF ch \in {COMMA, SEMI} THEN [out |-> Append(st.out, ch), esc |-> FALSE]
                                                      ELSE IF ch = BS THEN [out |-> Append(st.out, BS), esc |-> TRUE]
                                                      ELSE [out |-> st.out \o <<BS, ch>>, esc |-> FALSE])
                                       ELSE IF ch = BS THEN [st EXCEPT !.esc = TRUE] ELSE [st EXCEPT !.out = Append(@, ch)],
                      [out |-> <<>>, esc |-> FALSE], s)
  IN IF fin.esc THEN Append(fin.out, BS) ELSE fin.out
\* a.lines: expected <<name, value, structured>> triples in order (between BEGIN / END, after VERSION); structured values (N, ADR, GEO,
\* BDAY, REV) are compared raw, text values after un-escaping
VcardFails(a, payload) ==
  LET sp == SplitCRLF(payload)
      L == sp.lines n == Len(L)
      body == IF n >= 3 THEN SubSeq(L, 3, n - 1) ELSE <<>>
      parts == [i \in 1..Len(body) |-> SplitLine(body[i])] \o <<>>
      ok(i) == LET p == parts[i] w == a.lines[i] IN
               p[3] /\ p[1] = w[1] /\ (IF w[3] THEN p[2] = w[2] ELSE VUnescape(p[2]) = w[2])
  IN {c \in {"frame", "one_line_per_value", "no_raw_line_break", "values"} :
        CASE c = "frame" -> ~(n >= 3 /\ L[1] = a.begin /\ L[2] = a.version /\ L[n] = a.end /\ sp.rest = <<>>)
          [] c = "one_line_per_value" -> Len(body) # Len(a.lines)
          [] c = "no_raw_line_break" -> \E i \in 1..n : \E k \in 1..Len(L[i]) : L[i][k] \in {CR, LF}
          [] c = "values" -> Len(body) = Len(a.lines) /\ \E i \in 1..Len(body) : ~ok(i)}

(* ---------------- URIs ---------------- *)
IsDigit(ch) == ch >= 48 /\ ch <= 57
IsHex(ch) == IsDigit(ch) \/ (ch >= 65 /\ ch <= 70) \/ (ch >= 97 /\ ch <= 102)
HexVal(ch) == IF IsDigit(ch) THEN ch - 48 ELSE IF ch >= 97 THEN ch - 87 ELSE ch - 55
Unreserved(ch) == IsDigit(ch) \/ (ch >= 65 /\ ch <= 90) \/ (ch >= 97 /\ ch <= 122) \/ ch \in {45, 46, 95, 126}
\* percent decoding of a query value: [bytes, ok]; ok = only unreserved characters and well-formed %XX triplets
PctDecode(s) ==
  LET fin == FoldLeft(LAMBDA st, ch :
                 IF st.need = 2 THEN (IF IsHex(ch) THEN [st EXCEPT !.need = 1, !.hi = HexVal(ch)] ELSE [st EXCEPT !.ok = FALSE, !.need = 0])
                 ELSE IF st.need = 1 THEN (IF IsHex(ch) THEN [st EXCEPT !.need = 0, !.out = Append(@, 16 * st.hi + HexVal(ch))] ELSE [st EXCEPT !.ok = FALSE, !.need = 0])
                 ELSE IF ch = 37 THEN [st EXCEPT !.need = 2]
                 ELSE IF Unreserved(ch) THEN [st EXCEPT !.out = Append(@, ch)]
                 ELSE [st EXCEPT !.ok = FALSE, !.out = Append(@, ch)],
               [out |-> <<>>, ok |-> TRUE, need |-> 0, hi |-> 0], s)
  IN [bytes |-> fin.out, ok |-> fin.ok /\ fin.need = 0]
SplitAt(s, sep) ==   \* split a sequence at every occurrence of code point sep
  LET fin == FoldLeft(LAMBDA st, ch : IF ch = sep THEN [parts |-> Append(st.parts, st.cur), cur |-> <<>>] ELSE [st EXCEPT !.cur = Append(@, ch)],
                      [parts |-> <<>>, cur |-> <<>>], s)
  IN Append(fin.parts, fin.cur)
\* decimal number  [-]digits[.digits]  ->  <<sign, integer part, fraction scaled to 8 digits>>, or <<>> if malformed
ParseDec(s) ==
  LET neg == Len(s) >= 1 /\ s[1] = 45
      t == IF neg THEN Drop(s, 1) ELSE s
      pp == SplitAt(t, 46)
      ip == pp[1]
      fp == IF Len(pp) = 2 THEN pp[2] ELSE <<>>
      digits(x) == \A i \in 1..Len(x) : IsDigit(x[i])
      val(x) == FoldLeft(LAMBDA a, ch : 10 * a + (ch - 48), 0, x)
  IN IF Len(pp) > 2 \/ ip = <<>> \/ ~digits(ip) \/ ~digits(fp) \/ (Len(pp) = 2 /\ fp = <<>>) \/ Len(fp) > 8 \/ Len(ip) > 9 THEN <<>>
     ELSE <<IF neg THEN -1 ELSE 1, val(ip), val(fp) * 10^(8 - Len(fp))>>
GEO == <<103, 101, 111, 58>>
\* a: [lat, lng] each <<sign, integer part, fraction (8 digits)>>
GeoFails(a, payload) ==
  LET parts == SplitAt(Drop(payload, 4), COMMA)
      same(p, w) == p # <<>> /\ p[2] = w[2] /\ p[3] = w[3] /\ (p[1] = w[1] \/ (w[2] = 0 /\ w[3] = 0))
  IN {c \in {"scheme", "two_numbers", "values"} :
        CASE c = "scheme" -> ~StartsWith(payload, GEO)
          [] c = "two_numbers" -> Len(parts) # 2 \/ (Len(parts) = 2 /\ (ParseDec(parts[1]) = <<>> \/ ParseDec(parts[2]) = <<>>))
          [] c = "values" -> Len(parts) = 2 /\ ~(same(ParseDec(parts[1]), a.lat) /\ same(ParseDec(parts[2]), a.lng))}
MAILTO == <<109, 97, 105, 108, 116, 111, 58>>
\* a: [to (seq of texts), cc, bcc, subject (<<>> or <<utf-8 bytes>>), body (same)]; hfields: header fields expected in order
JoinComma(vals) == FoldLeft(LAMBDA acc, i : acc \o (IF i > 1 THEN <<COMMA>> ELSE <<>>) \o vals[i], <<>>, Iota(Len(vals)))
MailFails(a, payload) ==
  LET rest == Drop(payload, 7)
      qi == FoldLeft(LAMBDA acc, k : IF acc = 0 /\ rest[k] = 63 THEN k ELSE acc, 0, Iota(Len(rest)))     \* first '?'
      addr == IF qi = 0 THEN rest ELSE SubSeq(rest, 1, qi - 1)
      query == IF qi = 0 THEN <<>> ELSE Drop(rest, qi)
      hf == IF qi = 0 THEN <<>> ELSE SplitAt(query, 38)
      kv == [i \in 1..Len(hf) |-> SplitAt(hf[i], 61)] \o <<>>
      want == (IF a.cc # <<>> THEN << << <<99, 99>>, "addr", JoinComma(a.cc) >> >> ELSE <<>>)
              \o (IF a.bcc # <<>> THEN << << <<98, 99, 99>>, "addr", JoinComma(a.bcc) >> >> ELSE <<>>)
              \o (IF a.subject # <<>> THEN << << <<115, 117, 98, 106, 101, 99, 116>>, "text", a.subject[1] >> >> ELSE <<>>)
              \o (IF a.body # <<>> THEN << << <<98, 111, 100, 121>>, "text", a.body[1] >> >> ELSE <<>>)
      okf(i) == Len(kv[i]) = 2 /\ kv[i][1] = want[i][1] /\
                (IF want[i][2] = "text" THEN PctDecode(kv[i][2]).ok /\ PctDecode(kv[i][2]).bytes = want[i][3] ELSE kv[i][2] = want[i][3])
      \* an address part may not contain the URI delimiters of the query
      addr_clean == \A k \in 1..Len(addr) : addr[k] \notin {63, 38, 35, 32}
  IN {c \in {"scheme", "recipients", "header_fields", "valid_uri"} :
        CASE c = "scheme" -> ~StartsWith(payload, MAILTO)
          [] c = "recipients" -> addr # JoinComma(a.to)
          [] c = "header_fields" -> Len(hf) # Len(want) \/ (Len(hf) = Len(want) /\ \E i \in 1..Len(hf) : ~okf(i))
          [] c = "valid_uri" -> ~addr_clean \/ (want # <<>> /\ qi = 0)}

(* ---------------- EPC QR (EPC069-12, version 002) ---------------- *)
\* a: [name, iban, bic, purpose, reference, text (each a text, <<>> if absent), euros, cents, charset_req (0 = automatic),
\*     encodable (8 booleans)]; d: [lines (decoded with the character set the payload announces), charset, nbytes, decoded_ok]
Digits(n) == IF n = 0 THEN <<48>> ELSE LET RECURSIVE dg(_) dg(x) == IF x = 0 THEN <<>> ELSE Append(dg(x \div 10), 48 + (x % 10)) IN dg(n)
EUR == <<69, 85, 82>>
AmountOK(line, euros, cents) ==
  /\ StartsWith(line, EUR)
  /\ LET p == ParseDec(Drop(line, 3)) num == Drop(line, 3) dot == SplitAt(num, 46) IN
     /\ p # <<>> /\ p[1] = 1 /\ p[2] = euros /\ p[3] = cents * 1000000
     /\ (Len(dot) = 2 => Len(dot[2]) \in {1, 2})                                 \* EUR#.## : at most two decimals
     /\ (Len(dot[1]) > 1 => dot[1][1] # 48)                                       \* no leading zeros
EpcFails(a, d) ==
  LET L == d.lines n == Len(L)
      S(x) == x
      cs == IF n >= 3 /\ Len(L[3]) = 1 /\ L[3][1] >= 49 /\ L[3][1] <= 56 THEN L[3][1] - 48 ELSE 0
  IN {c \in {"decodable", "line_count", "service_tag_version_sct", "charset", "fields", "amount", "size"} :
        CASE c = "decodable" -> ~d.decoded_ok
          [] c = "line_count" -> ~(n = (IF a.text # <<>> THEN 11 ELSE 10))
          [] c = "service_tag_version_sct" -> n < 4 \/ L[1] # <<66, 67, 68>> \/ L[2] # <<48, 48, 50>> \/ L[4] # <<83, 67, 84>>
          [] c = "charset" -> cs = 0 \/ cs # d.charset \/ (a.charset_req # 0 /\ cs # a.charset_req) \/ ~a.encodable[IF cs = 0 THEN 1 ELSE cs]
          [] c = "fields" -> n < 10 \/ L[5] # a.bic \/ L[6] # a.name \/ L[7] # a.iban \/ L[9] # a.purpose \/ L[10] # a.reference
                             \/ (a.text # <<>> /\ (n < 11 \/ L[11] # a.text))
          [] c = "amount" -> n < 8 \/ ~AmountOK(L[8], a.euros, a.cents)
          [] c = "size" -> d.nbytes > 331}

(* ---------------- design model: the scanner is the inverse of the reference builder ---------------- *)
CONSTANTS Alphabet, MaxLen, MaxFields
VARIABLES fields
Texts == UNION {[1..k -> Alphabet] : k \in 0..MaxLen}
\* (the function sets are enumerated lazily: no UNION over them, which TLC would materialise)
Init == \E k \in 1..MaxFields : fields \in [1..k -> ({<<97>>, <<98, 99>>} \X Texts)]
Next == UNCHANGED fields
RoundTrip == LET sc == Scan(Build(fields)) IN sc.clean /\ NonEmpty(sc.fields) = NonEmpty(fields) /\ Len(sc.fields) = Len(fields) + 1
\* no value can forge or terminate a field: the number of fields never depends on the values
NoForgery == Len(Scan(Build(fields)).fields) = Len(fields) + 1
=============================================================================
