----------------------------- MODULE PurityInd -----------------------------
(***************************************************************************)
(* Apalache: the ownership discipline of Purity.tla as an INDUCTIVE        *)
(* invariant - unbounded in the number of calls and context switches (TLC  *)
(* checks Purity.tla for 2 threads x 3 calls).  Same actions as            *)
(* Purity.tla; the record-valued thread state is flattened into one        *)
(* function per field, contents are abstracted to write counters, the      *)
(* bookkeeping variables (hist, last, switches, memo, ncalls) are dropped. *)
(*                                                                         *)
(*   base:  apalache-mc check --init=Init    --inv=IndInv --length=0       *)
(*   step:  apalache-mc check --init=IndInit --inv=IndInv --length=1       *)
(*   use:   apalache-mc check --init=IndInit --inv=StepSafe --length=1     *)
(*          (StepSafe is an action invariant)                              *)
(***************************************************************************)
EXTENDS Integers, Sequences, FiniteSets, Apalache

Thread == {"t1", "t2"}
NStages == 21
MaxO == 6
StPrepare == 2
StBlocks == 9
StAllocMatrix == 11
StCopyRows == 15
StReturn == 21

VARIABLES
  \* @type: Str -> Int;
  pc,
  \* @type: Str -> Int;
  oBuf,
  \* @type: Str -> Int;
  oScr,
  \* @type: Str -> Int;
  oMat,
  \* @type: Str -> Int;
  oCand,
  \* @type: Int -> Str;
  owner,
  \* @type: Int -> Int;
  content,
  \* @type: Set(Int);
  returned,
  \* @type: Int;
  nobj

Init == /\ pc = [t \in Thread |-> 0] /\ oBuf = [t \in Thread |-> 0] /\ oScr = [t \in Thread |-> 0] /\ oMat = [t \in Thread |-> 0] /\ oCand = [t \in Thread |-> 0]
        /\ owner = [o \in {0} |-> "lib"] /\ content = [o \in {0} |-> 0]
        /\ returned = {} /\ nobj = 0

Start(t) == /\ pc[t] = 0
            /\ pc' = [pc EXCEPT ![t] = 1]
            /\ oBuf' = [oBuf EXCEPT ![t] = 0] /\ oScr' = [oScr EXCEPT ![t] = 0] /\ oMat' = [oMat EXCEPT ![t] = 0] /\ oCand' = [oCand EXCEPT ![t] = 0]
            /\ UNCHANGED <<owner, content, returned, nobj>>
Fresh(t, init) ==
   /\ nobj < MaxO
   /\ nobj' = nobj + 1
   /\ owner' = [o \in DOMAIN owner \cup {nobj + 1} |-> IF o = nobj + 1 THEN t ELSE owner[o]]
   /\ content' = [o \in DOMAIN content \cup {nobj + 1} |-> IF o = nobj + 1 THEN init ELSE content[o]]
   /\ pc' = [pc EXCEPT ![t] = @ + 1]
   /\ UNCHANGED returned
Write(t, o) == /\ content' = [content EXCEPT ![o] = @ + 1]
               /\ pc' = [pc EXCEPT ![t] = @ + 1]
               /\ UNCHANGED <<oBuf, oScr, oMat, oCand, owner, returned, nobj>>
Step(t) ==
  /\ pc[t] >= 1 /\ pc[t] <= NStages
  /\ IF pc[t] = StPrepare THEN Fresh(t, 1) /\ oBuf' = [oBuf EXCEPT ![t] = nobj + 1] /\ UNCHANGED <<oScr, oMat, oCand>>
     ELSE IF pc[t] = StBlocks THEN Fresh(t, 1) /\ oScr' = [oScr EXCEPT ![t] = nobj + 1] /\ UNCHANGED <<oBuf, oMat, oCand>>
     ELSE IF pc[t] = StAllocMatrix THEN Fresh(t, 1) /\ oMat' = [oMat EXCEPT ![t] = nobj + 1] /\ UNCHANGED <<oBuf, oScr, oCand>>
     ELSE IF pc[t] = StCopyRows THEN Fresh(t, content[oMat[t]] + content[oScr[t]]) /\ oCand' = [oCand EXCEPT ![t] = nobj + 1] /\ UNCHANGED <<oBuf, oScr, oMat>>
     ELSE IF pc[t] = StReturn THEN
          /\ returned' = returned \cup {oCand[t]}
          /\ owner' = [owner EXCEPT ![oCand[t]] = "ret"]
          /\ pc' = [pc EXCEPT ![t] = 0]                       \* thr' = Idle: the thread lets go of its working objects
          /\ oBuf' = [oBuf EXCEPT ![t] = 0] /\ oScr' = [oScr EXCEPT ![t] = 0] /\ oMat' = [oMat EXCEPT ![t] = 0] /\ oCand' = [oCand EXCEPT ![t] = 0]
          /\ UNCHANGED <<content, nobj>>
     ELSE IF pc[t] \in {5, 6, 7, 8} THEN Write(t, oBuf[t])
     ELSE IF pc[t] \in {10} THEN Write(t, oScr[t])
     ELSE IF pc[t] \in {12, 13, 14, 19, 20} THEN Write(t, oMat[t])
     ELSE IF pc[t] = 16 THEN Write(t, oCand[t])
     ELSE /\ pc' = [pc EXCEPT ![t] = @ + 1] /\ UNCHANGED <<oBuf, oScr, oMat, oCand, owner, content, returned, nobj>>
Next == \E t \in Thread : Start(t) \/ Step(t)
\* negative control (--next=NextDev): Dev_SharedScratch of Purity.tla - the "blocks" stage works on the library-owned object 0
DevSharedScratch(t) == /\ pc[t] = StBlocks /\ content' = [content EXCEPT ![0] = @ + 1] /\ pc' = [pc EXCEPT ![t] = @ + 1]
                       /\ UNCHANGED <<oBuf, oScr, oMat, oCand, owner, returned, nobj>>
NextDev == Next \/ \E t \in Thread : DevSharedScratch(t)

(* ------------------------------------------------------------------ the inductive invariant *)
Held(t, o, after) == IF pc[t] > after THEN o >= 1 /\ o <= nobj /\ owner[o] = t ELSE o = 0
IndInv ==
  /\ nobj >= 0 /\ nobj <= MaxO
  /\ DOMAIN owner = {o \in 0..MaxO : o <= nobj} /\ DOMAIN content = {o \in 0..MaxO : o <= nobj}
  /\ DOMAIN pc = Thread /\ DOMAIN oBuf = Thread /\ DOMAIN oScr = Thread /\ DOMAIN oMat = Thread /\ DOMAIN oCand = Thread
  /\ \A t \in Thread : pc[t] >= 0 /\ pc[t] <= NStages
  /\ \A o \in DOMAIN owner : owner[o] \in Thread \cup {"lib", "ret"}
  /\ owner[0] = "lib" /\ content[0] = 0
  /\ \A o \in DOMAIN owner : o # 0 => owner[o] # "lib"
  \* a thread past the allocating stage of a kind holds an object of that kind and owns it; before that stage it holds none
  /\ \A t \in Thread : Held(t, oBuf[t], StPrepare) /\ Held(t, oScr[t], StBlocks) /\ Held(t, oMat[t], StAllocMatrix) /\ Held(t, oCand[t], StCopyRows)
  /\ \A o \in returned : o >= 1 /\ o <= nobj /\ owner[o] = "ret"
IndInit ==
  /\ pc = Gen(2) /\ oBuf = Gen(2) /\ oScr = Gen(2) /\ oMat = Gen(2) /\ oCand = Gen(2)
  /\ owner = Gen(7) /\ content = Gen(7) /\ returned = Gen(7) /\ nobj \in 0..MaxO
  /\ IndInv
\* what the invariant buys, as an ACTION invariant over one step from any IndInv state: the library object and handed-out symbols
\* are never written, and a write only ever hits an object owned by the stepping thread
StepSafe ==
  /\ content'[0] = content[0]
  /\ \A o \in DOMAIN content : owner[o] = "ret" => content'[o] = content[o]
  /\ \A o \in DOMAIN content : content'[o] # content[o] => \E t \in Thread : owner[o] = t /\ pc'[t] # pc[t]
NotReachable == nobj < 0
=============================================================================
