----------------------------- MODULE MC_SegnoSA -----------------------------
EXTENDS SegnoSA
Msg(b, e) == [bytes |-> b, enc |-> e]
Rep(b, n) == FoldLeft(LAMBDA x, i : x \o b, <<>>, Iota(n))
\* digits (45, 71 = the smallest over-full case at 1-L, 83), alphanumeric, latin-1 bytes, UTF-8 (C5 91), Shift JIS kanji (93 5F), short ones
PoolQuickSA == {Msg(Rep(<<55>>, 45), "l1"), Msg(Rep(<<55>>, 71), "l1"), Msg(Rep(<<65, 66, 32>>, 10), "l1"), Msg(Rep(<<97, 228>>, 12), "l1"),
                Msg(Rep(<<197, 145>>, 11), "u8"), Msg(Rep(<<147, 95>>, 11), "l1"), Msg(<<49, 50>>, "l1"),
                Msg(Rep(<<55>>, 16) \o Rep(<<97>>, 32), "l1"), Msg(Rep(<<65>>, 17) \o Rep(<<97>>, 17), "l1")}     \* dense leading run = first chunk
PoolSA == PoolQuickSA \cup {Msg(Rep(<<55>>, 83), "l1"), Msg(Rep(<<55, 56, 57>>, 41), "l1"), Msg(Rep(<<65>>, 51), "l1"), Msg(Rep(<<97>>, 35), "l1"),
                            Msg(Rep(<<147, 95>>, 21), "l1"), Msg(<<65>>, "l1"), Msg(Rep(<<0, 255>>, 9), "l1")}
VersionsQuickSA == {99, 1, 2, -1}
VersionsSA == {99, 1, 2, 3, -1}
CountsQuickSA == {-1, 1, 2, 3, 16, 17}
CountsSA == {-1, 1, 2, 3, 4, 16, 0, 17}
=============================================================================
