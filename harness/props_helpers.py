"""C16: helper factories (WIFI, MeCard, vCard, geo, mailto, EPC)."""
import datetime
import decimal
import itertools
import json
import multiprocessing as mp
from . import common, symobs, engine, gen

EPC_ENCODINGS = ('utf-8', 'iso-8859-1', 'iso-8859-2', 'iso-8859-4', 'iso-8859-5', 'iso-8859-7', 'iso-8859-10', 'iso-8859-15')   # EPC069-12, 1..8


def cps(s):
    return [ord(c) for c in s]


def opt(v):
    return [] if v is None else [cps(v)]


def multi(v):
    if not v:
        return []
    if isinstance(v, str):
        return [cps(v)]
    return [cps(x) for x in v]


def reshape(kw, shape):
    if not shape:
        return kw
    out = dict(kw)
    for k, kind in shape.items():
        v = list(kw[k])
        out[k] = {'tuple': tuple(v), 'gen': (x for x in v), 'iter': iter(v), 'map': map(str, v), 'dictkeys': dict.fromkeys(v),
                  'deque': __import__('collections').deque(v)}[kind]
    return out


def helper_obs(spec):
    common.use_repo()
    from segno import helpers
    h, kw = spec['helper'], spec['kw']
    ckw = reshape(kw, spec.get('shape'))         # the documented "iterable of strings" in other container kinds (one-shot iterators included)
    o = {'_spec': spec, 'helper': h, 'outcome': {'status': 'ok'}}
    try:
        if h == 'wifi':
            payload = helpers.make_wifi_data(**ckw)
            o['a'] = {'ssid': cps(kw['ssid']), 'password': opt(kw.get('password')), 'security': opt(kw.get('security')) if kw.get('security') else [],
                      'hidden': bool(kw.get('hidden', False))}
            o['payload'] = cps(payload)
        elif h == 'mecard':
            payload = helpers.make_mecard_data(**ckw)
            bd = kw.get('birthday')
            if isinstance(bd, (datetime.date, datetime.datetime)):
                bd = bd.strftime('%Y%m%d')
            keys = {k: cps(k) for k in ('N', 'SOUND', 'TEL', 'TELAV', 'EMAIL', 'NICKNAME', 'BDAY', 'URL', 'ADR', 'MEMO')}
            o['a'] = {'k': keys, 'name': cps(kw['name']), 'reading': multi(kw.get('reading')), 'phone': multi(kw.get('phone')),
                      'videophone': multi(kw.get('videophone')), 'email': multi(kw.get('email')), 'nickname': multi(kw.get('nickname')),
                      'birthday': multi(bd), 'url': multi(kw.get('url')), 'memo': multi(kw.get('memo')),
                      'adr': [cps(kw.get(k) or '') for k in ('pobox', 'roomno', 'houseno', 'city', 'prefecture', 'zipcode', 'country')]}
            o['payload'] = cps(payload)
        elif h == 'vcard':
            payload = helpers.make_vcard_data(**ckw)
            lines = [[cps('N'), cps(kw['name']), True], [cps('FN'), cps(kw['displayname'].replace('\r', '')), False]]

            def add(name, val, structured=False):
                for x in ([val] if isinstance(val, str) else (val or [])):
                    lines.append([cps(name), cps(x.replace('\r', '')), structured])
            if kw.get('org'):
                add('ORG', kw['org'])
            add('EMAIL', kw.get('email'))
            add('TEL', kw.get('phone'))
            add('TEL;TYPE=FAX', kw.get('fax'))
            add('TEL;TYPE=VIDEO', kw.get('videophone'))
            add('TEL;TYPE=CELL', kw.get('cellphone'))
            add('TEL;TYPE=HOME', kw.get('homephone'))
            add('TEL;TYPE=WORK', kw.get('workphone'))
            add('URL', kw.get('url'))
            add('TITLE', kw.get('title'))
            add('PHOTO;VALUE=uri', kw.get('photo_uri'))
            if kw.get('nickname'):
                add('NICKNAME', kw['nickname'])
            adr = [kw.get(k) for k in ('pobox', 'street', 'city', 'region', 'zipcode', 'country')]
            if any(adr):
                # ADR is a structured value: pobox;extended (empty);street;city;region;zip;country, components escaped
                def esc(x):
                    return (x or '').replace(',', '\\,').replace(';', '\\;').replace('\n', '\\n').replace('\r', '')
                a = [esc(x) for x in adr]
                lines.append([cps('ADR'), cps('{0};;{1};{2};{3};{4};{5}'.format(*a)), True])
            bd = kw.get('birthday')
            if bd:
                lines.append([cps('BDAY'), cps(bd.strftime('%Y-%m-%d') if not isinstance(bd, str) else bd), True])
            if kw.get('lat') is not None and kw.get('lng') is not None:      # 0 is a coordinate (equator / prime meridian)
                lines.append([cps('GEO'), cps(f"{kw['lat']};{kw['lng']}"), True])
            if kw.get('source'):
                add('SOURCE', kw['source'])
            if kw.get('memo'):
                add('NOTE', kw['memo'])
            rev = kw.get('rev')
            if rev:
                lines.append([cps('REV'), cps(rev.strftime('%Y-%m-%d') if not isinstance(rev, str) else rev), True])
            o['a'] = {'begin': cps('BEGIN:VCARD'), 'version': cps('VERSION:3.0'), 'end': cps('END:VCARD'), 'lines': lines}
            o['payload'] = cps(payload)
        elif h == 'geo':
            payload = helpers.make_geo_data(kw['lat'], kw['lng'])

            def triple(x):
                d = decimal.Decimal(str(x))
                sign = -1 if d < 0 else 1
                d = abs(d)
                ip = int(d)
                fp = int((d - ip) * 10 ** 8)
                return [sign, ip, fp]
            o['a'] = {'lat': triple(kw['lat']), 'lng': triple(kw['lng'])}
            o['payload'] = cps(payload)
        elif h == 'email':
            payload = helpers.make_make_email_data(**ckw)

            def lst(v):
                return [] if not v else ([cps(v)] if isinstance(v, str) else [cps(x) for x in v])
            o['a'] = {'to': lst(kw['to']), 'cc': lst(kw.get('cc')), 'bcc': lst(kw.get('bcc')),
                      'subject': [] if kw.get('subject') is None else [list(kw['subject'].encode('utf-8'))],
                      'body': [] if kw.get('body') is None else [list(kw['body'].encode('utf-8'))]}
            o['payload'] = cps(payload)
        elif h == 'epc':
            data = helpers._make_epc_qr_data(**ckw)
            amount = decimal.Decimal(str(kw['amount']))
            euros = int(amount)
            cents = int((amount - euros) * 100)
            enc_req = kw.get('encoding')
            if isinstance(enc_req, str):
                enc_req = EPC_ENCODINGS.index(enc_req.lower()) + 1
            fields = [kw.get(k) or '' for k in ('name', 'iban', 'bic', 'purpose', 'reference', 'text')]
            whole = '\n'.join(fields)
            encodable = []
            for e in EPC_ENCODINGS:
                try:
                    whole.encode(e)
                    encodable.append(True)
                except UnicodeEncodeError:
                    encodable.append(False)
            raw_lines = data.split(b'\n')
            try:
                claimed = int(raw_lines[2].decode('ascii'))
                text = data.decode(EPC_ENCODINGS[claimed - 1])
                dec_ok = True
            except Exception:  # noqa
                claimed, text, dec_ok = 0, data.decode('latin-1'), False
            o['a'] = {'name': cps(kw['name']), 'iban': cps(kw['iban']), 'bic': cps(kw.get('bic') or ''), 'purpose': cps(kw.get('purpose') or ''),
                      'reference': cps(kw.get('reference') or ''), 'text': cps(kw.get('text') or ''), 'euros': euros, 'cents': cents,
                      'charset_req': enc_req or 0, 'encodable': encodable}
            o['d'] = {'lines': [cps(x) for x in text.split('\n')], 'charset': claimed, 'nbytes': len(data), 'decoded_ok': dec_ok}
    except Exception as e:  # noqa
        o['outcome'] = symobs.outcome_of_exception(e)
    return o


TRICKY = ['a', 'a;b', 'a:b', 'a\\', '\\;', 'a\\;b', '"q"', 'x,y', ';', ':', '\\', '\\\\', 'a;:\\"', 'T:WPA;P:x', ';;', 'end;', 'p\\:q', 'Ünï€', 'a b', 'line1\nline2',
          'cr\rlf', 'two\\\\', 'C:\\share', 'pass\\;word']


def gen_specs(tier, seed_):
    r = gen.rng(seed_, 'C16')
    specs = []

    def add(h, must_refuse=False, shape=None, **kw):
        specs.append({'helper': h, 'kw': kw, 'must_refuse': must_refuse, 'shape': shape})
    # grammar strings: all strings of length <= 3 (quick: <= 2 plus samples of 3) over the delimiter / escape alphabet
    alpha = 'a;:\\",\n'
    strings = [''.join(p) for k in range(1, 3) for p in itertools.product(alpha, repeat=k)]
    s3 = [''.join(p) for p in itertools.product(alpha, repeat=3)]
    strings += s3 if tier == 'thorough' else r.sample(s3, 60)
    strings += TRICKY
    nol = [s for s in strings]
    for s in strings:
        add('wifi', ssid=s, password=r.choice(nol), security=r.choice(('WPA', 'wep', 'nopass', None)), hidden=r.choice((True, False)))
        add('wifi', ssid='net', password=s)
        add('mecard', name=s, memo=r.choice(nol), email=[r.choice(nol), 'b@example.org'])
        add('mecard', name='Doe,John', nickname=s, url=['http://example.org/?q=' + s], phone=s, reading=r.choice(nol),
            city=r.choice(nol) if r.random() < 0.3 else None)
        if '\n' not in s and '\r' not in s or True:
            add('vcard', name='Doe;John', displayname=s, memo=r.choice(nol), org=r.choice(nol), title=[r.choice(nol)])
            add('vcard', name='Doe;John', displayname='John Doe', nickname=s, email=['a@example.org', 'b@example.org'], city=s, street='Main St 1',
                source='http://example.org/x.vcf', url=s)
    add('mecard', name='N', birthday=datetime.date(2001, 2, 3), videophone=['1', '2'], pobox='p', roomno='r', houseno='h', city='c', prefecture='pr',
        zipcode='z', country='co')
    add('mecard', name='N', birthday='19991231')
    add('vcard', name='Doe;John', displayname='JD', birthday=datetime.date(1980, 5, 6), rev='2020-01-02', lat=1.5, lng=-2.25, fax='1', videophone='2',
        cellphone='3', homephone='4', workphone=['5', '6'], photo_uri='http://example.org/p.png', phone='7', zipcode='12345', country='DE', region='R', pobox='PO')
    # vCard dates as text, coordinates on the equator / prime meridian, incomplete coordinates
    add('vcard', name='Doe;John', displayname='JD', lat=0, lng=20)
    add('vcard', name='Doe;John', displayname='JD', lat=10.5, lng=0)
    add('vcard', name='Doe;John', displayname='JD', lat=0.0, lng=0.0)
    add('vcard', name='Doe;John', displayname='JD', birthday='1980-05-06', rev='2020-01-02T10:11:12Z')
    add('vcard', name='Doe;John', displayname='JD', birthday='not a date', must_refuse=True)
    add('vcard', name='Doe;John', displayname='JD', rev='yesterday', must_refuse=True)
    add('vcard', name='Doe;John', displayname='JD', lat=12.5, must_refuse=True)
    add('vcard', name='Doe;John', displayname='JD', lng=12.5, must_refuse=True)
    # geo
    for lat, lng in ((0, 0), (1, 1), (48.85, 2.35), (-33.8688, 151.2093), (90, -180), (0.00000001, -0.00000001), (12.34567891, 98.7654321), (-0.5, 0.5),
                     (10, 20.0), (38.8976763, -77.0365297)):
        add('geo', lat=lat, lng=lng)
    for _ in range(40 if tier == 'quick' else 400):
        add('geo', lat=round(r.uniform(-90, 90), r.randint(0, 8)), lng=round(r.uniform(-180, 180), r.randint(0, 8)))
    # mailto
    texts = ['Hello', 'Hello World', 'a&b=c?d', 'Grüße €', '100% sure', 'line1\nline2', '', ' ', '#frag', 'a+b', "quote'\""] + strings[:20]
    for s in texts:
        add('email', to='me@example.org', subject=s)
        add('email', to='me@example.org', body=s)
        add('email', to=['a@example.org', 'b@example.org'], cc='c@example.org', subject=s, body=r.choice(texts))
        add('email', to='me@example.org', bcc=['x@example.org', 'y@example.org'], body=s)
    add('email', to='me@example.org')
    # "str, iterable of strings, or None": the same values in every container kind, one-shot iterators included
    for kind in ('tuple', 'gen', 'iter', 'map', 'dictkeys', 'deque'):
        add('email', to=['a@example.org', 'b@example.org'], cc=['c@example.org'], bcc=['x@example.org', 'y@example.org'], subject='S', body='B',
            shape={'to': kind, 'cc': kind, 'bcc': kind})
        add('email', to='me@example.org', cc=['c@example.org', 'd@example.org'], shape={'cc': kind})
        add('email', to='me@example.org', bcc=['c@example.org'], subject='x', shape={'bcc': kind})
        add('mecard', name='N', phone=['1', '2'], email=['a@example.org', 'b@example.org'], url=['http://a.example', 'http://b.example'], videophone=['3'],
            nickname='Nick', shape={'phone': kind, 'email': kind, 'url': kind, 'videophone': kind})
        add('vcard', name='Doe;John', displayname='JD', email=['a@example.org', 'b@example.org'], phone=['1', '2'], fax=['3'], url=['http://a.example'],
            title=['T1', 'T2'], cellphone=['4'], homephone=['5'], workphone=['6', '7'], photo_uri=['http://example.org/p.png'], videophone=['8'],
            shape={k: kind for k in ('email', 'phone', 'fax', 'url', 'title', 'cellphone', 'homephone', 'workphone', 'photo_uri', 'videophone')})
    add('email', to='me@example.org', cc='c@example.org')
    add('email', to='', must_refuse=True)
    # EPC
    names = ['Wikimedia Foerdergesellschaft', 'Jörg Müller', 'Ďábel Černý', 'Ēriks', 'Иван', 'Γιώργος', 'Þór', 'François €uro', 'A' * 70]
    amounts = ['0.01', '0.1', '0.10', '1', 1, 1.0, '12.3', 12.34, '999999999.99', decimal.Decimal('100.50'), 20, '1000000', 12345.67, '45000.99', 0.5,
               decimal.Decimal('0.07'), 1e3, '10000.10']
    for nm in names:
        for am in (amounts if tier == 'thorough' else r.sample(amounts, 5)):
            add('epc', name=nm, iban='DE33100205000001194700', amount=am, text=r.choice(('Spende', 'Rechnung 4711 ä', 'x' * 140)))
            add('epc', name=nm, iban='DE33100205000001194700', amount=am, reference='RF18539007547034', bic=r.choice((None, 'BFSWDE33BER', 'BFSWDE33')),
                purpose=r.choice((None, 'CHAR')))
    for am in amounts:
        add('epc', name='Amount Test', iban='FR1420041010050500013M02606', amount=am, text='t')
    for enc in list(range(1, 9)) + list(EPC_ENCODINGS) + ['UTF-8', 'ISO-8859-15']:
        add('epc', name='Encoding Test', iban='DE33100205000001194700', amount='9.99', text='plain ascii', encoding=enc)
    # an explicitly requested character set that cannot represent the data is refused (never silently replaced: the payload announces
    # the character set it is written in), and one that can is used
    for enc, field, txt, ok in ((2, 'name', '\u0141ukasz \u017b\xf3\u0142\u0107', False), ('iso-8859-5', 'text', 'J\xf6rg', False), (6, 'name', '\u0418\u0432\u0430\u043d', False),
                                (2, 'text', '\u20acuro', False), (3, 'name', '\u0141ukasz', True), (6, 'text', '\u0393\u03b9\u03ce\u03c1\u03b3\u03bf\u03c2', True),
                                ('iso-8859-5', 'name', '\u0418\u0432\u0430\u043d', True), (4, 'reference', 'R\u20ac', False), (8, 'name', '\u20acuro M\xfcller', True),
                                (2, 'name', 'M\xfcller', True), (5, 'text', 'Gr\xfc\xdfe \u0416', False), (1, 'name', '\u0141\u0416\u0393\u20ac', True)):
        kw = dict(name='N', iban='DE33100205000001194700', amount='1', text='t', encoding=enc)
        kw[field] = txt
        if field == 'reference':
            kw['text'] = None
        add('epc', must_refuse=not ok, **kw)
    # the 331 byte limit is a limit in BYTES of the encoding used: every element within its length limit, payload too long as UTF-8
    add('epc', must_refuse=True, name='\u5c71' * 36, iban='DE33100205000001194700', amount='1', text='\u5b57' * 140)
    add('epc', must_refuse=True, name='\u20ac\u0416' * 35, iban='DE33100205000001194700', amount='12.5', text='\u20ac\u0416' * 70)
    add('epc', name='\u20ac' * 70, iban='DE33100205000001194700', amount='12.5', text='\u20ac' * 60)          # ISO 8859-15: 130 bytes
    add('epc', must_refuse=True, name='N', iban='DE33100205000001194700', amount='1', text='\U0001f600' * 80)
    add('epc', name='\u5c71' * 20, iban='DE33100205000001194700', amount='1', text='\u5b57' * 60)       # 3 * 80 + ~60: fits
    # white space INSIDE the remittance text / the name is part of the value (runs of blanks, tabs, no-break spaces, leading blanks): it is
    # neither collapsed nor does it shorten the text for the 140 character limit
    for txt in ('Rechnung 4711  Kd.-Nr. 0815', 'a\tb', 'a\u00a0b', ' leading blank', 'a   b    c', 'x' + ' ' * 100 + 'y', 'two  blanks\u00a0and\ttab', '  x', 'a \u2003 b'):
        add('epc', name='Max  Mustermann', iban='DE33100205000001194700', amount='1', text=txt)
        add('epc', name='N\u00a0N', iban='DE33100205000001194700', amount='2.5', text=txt, encoding=1)
    add('epc', must_refuse=True, name='N', iban='DE33100205000001194700', amount='1', text='x' + ' ' * 139 + 'y')
    add('epc', must_refuse=True, name='N', iban='DE33100205000001194700', amount='1', text='x\t' * 70 + 'y')
    # limits must be refused
    base = dict(name='N', iban='DE33100205000001194700', amount='1', text='t')
    for bad in (dict(amount='0'), dict(amount='0.009'), dict(amount='1000000000'), dict(amount='-1'), dict(name=''), dict(name='A' * 71), dict(iban='DE33'),
                dict(iban='X' * 35), dict(text='x' * 141), dict(text=None), dict(reference='R' * 36, text=None), dict(reference='RF18', text='both'),
                dict(bic='SHORT'), dict(bic='TOOLONG123456'), dict(purpose='ABC'), dict(purpose='ABCDE'), dict(encoding=0), dict(encoding=9),
                dict(encoding='utf-16'), dict(encoding='latin1')):
        add('epc', must_refuse=True, **dict(base, **bad))
    return specs


def symbol_part(rep, tier):
    """the symbols returned by the make_* factories decode (C01) to the payloads; EPC symbols: level M, version <= 13"""
    common.use_repo()
    from segno import helpers
    r = gen.rng(common.seed(), 'C16', 'sym')
    obs = []
    cases = [('make_wifi', dict(ssid='My;Net', password='p:a\\ss', security='WPA'), helpers.make_wifi_data),
             ('make_mecard', dict(name='Doe,John', email='j@example.org', memo='a;b'), helpers.make_mecard_data),
             ('make_vcard', dict(name='Doe;John', displayname='John Doe', email='j@example.org'), helpers.make_vcard_data),
             ('make_geo', dict(lat=38.8976763, lng=-77.0365297), helpers.make_geo_data),
             ('make_email', dict(to='me@example.org', subject='Grüße €', body='b'), helpers.make_make_email_data),
             ('make_mecard', dict(name='山田,太郎', memo='メモ'), helpers.make_mecard_data),
             ('make_wifi', dict(ssid='Ünï€', password='x'), helpers.make_wifi_data)]
    # text shapes: the symbol holds the payload as it is - no Unicode normalisation, no re-escaping (decomposed letters, characters whose
    # canonical form is an ASCII delimiter (U+037E -> ';', U+212A -> 'K'), fullwidth forms, astral characters, mixed scripts)
    shapes = ['e\u0301', 'Ame\u0301lie', 'kalimera\u037e2024', '\u212a\u212b', 'A\u030a', '\u1fef', '\uff21\uff1b', '\U0001f600;x', 'Gr\xfc\xdfe', '\u70b9\u8317',
              'n\u0303o\u0308', '\u0387:', 'a\u00a0b', '\u2126']
    for t in shapes if tier == 'quick' else shapes + [a + b for a in shapes[:6] for b in shapes[6:]]:
        cases += [('make_wifi', dict(ssid=t, password='pw' + t, security='WPA'), helpers.make_wifi_data),
                  ('make_mecard', dict(name=t, memo=t + ';', email='a@example.org'), helpers.make_mecard_data),
                  ('make_vcard', dict(name='Doe;' + t, displayname=t, org=t), helpers.make_vcard_data),
                  ('make_email', dict(to='a@example.org', subject=t, body=t), helpers.make_make_email_data),
                  ('make_email', dict(to=t + '@example.org', cc='c@example.org'), helpers.make_make_email_data)]
    def refused(fname, kw, e):
        rep.violation({'kind': 'helpers', 'module': 'props_helpers', 'spec': {'helper': fname, 'kw': {k: str(v) for k, v in kw.items()}},
                       'failing_clauses': ['helper_refuses_valid_input']}, f'{fname}({kw}) raised {type(e).__name__}: {str(e)[:100]}')
    for fname, kw, datafn in cases:
        try:
            qr = getattr(helpers, fname)(**kw)
            payload = datafn(**kw)
        except Exception as e:  # noqa: a valid request that is refused is a finding, not a failure of the harness
            refused(fname, kw, e)
            continue
        c = symobs.call('make_qr', payload)
        o = {'_call': c, 'props': ['C01'], 'outcome': {'status': 'ok'}, 'exp': symobs.expectation(payload, {}), 'res': symobs.project_symbol(qr),
             '_cost': len(qr.matrix) ** 2}
        obs.append(o)
    epc_specs = [dict(name='Jörg Müller', iban='DE33100205000001194700', amount='12.30', text='x' * 140),
                 dict(name='A' * 70, iban='D' * 34, amount='999999999.99', text='€' * 80, bic='BFSWDE33BER', purpose='CHAR'),
                 dict(name='Иван', iban='DE33100205000001194700', amount=5, reference='R' * 35),
                 dict(name='N', iban='DE331', amount='0.01', text='t')]
    # text that is not Latin-1 but fits another character set of the EPC list (Greek, Cyrillic, Latin-2, Latin-9): the symbol carries the
    # bytes of the character set the payload announces
    epc_specs += [dict(name=nm, iban='DE33100205000001194700', amount='1', text=tx) for nm, tx in
                  (('\u0393\u03b9\u03ce\u03c1\u03b3\u03bf\u03c2', '\u03a4\u03b9\u03bc\u03bf\u03bb\u03cc\u03b3\u03b9\u03bf 7'), ('\u0141ukasz \u017b\xf3\u0142\u0107', 'Faktura \u0141\xf3d\u017a'),
                   ('Fran\xe7ois', '\u20ac 12 pay\xe9'), ('\u0112riks', 'R\u0113\u0137ins'), ('\u0418\u0432\u0430\u043d', '\u0421\u0447\u0451\u0442 5'))]
    for kw in epc_specs:
        try:
            qr = helpers.make_epc_qr(**kw)
            data = helpers._make_epc_qr_data(**kw)
        except Exception as e:  # noqa
            refused('make_epc_qr', kw, e)
            continue
        c = symobs.call('make_qr', data, error='m', boost_error=False)
        o = {'_call': c, 'props': ['C01'], 'outcome': {'status': 'ok'}, 'exp': symobs.expectation(data, {}), 'res': symobs.project_symbol(qr),
             '_cost': len(qr.matrix) ** 2, '_epc': True}
        obs.append(o)
        if qr.error != 'M' or not isinstance(qr.version, int) or qr.version > 13:
            rep.violation({'kind': 'helpers', 'module': 'props_helpers', 'spec': {'helper': 'epc', 'kw': {k: str(v) for k, v in kw.items()}},
                           'failing_clauses': ['epc_symbol_level_M_version_le_13']}, f'make_epc_qr({kw}) -> {qr.designator}')
    rep.evaluations += len(obs)
    engine.judge_symbols(rep, obs, {'C01'}, lambda o, v: ('sym', engine.brief_call(o['_call'])[:60]), None)


def run_c16(rep, tier):
    cfg = 'Helpers_quick.cfg' if tier == 'quick' else 'Helpers_thorough.cfg'
    out, st = common.run_tlc('Helpers', cfg=cfg, workers=8, timeout=4000, xmx='10g', coverage=(tier == 'quick'))
    rep.add_design('Helpers', cfg, out, st, 'Scan(Build(fields)) = fields and NoForgery for all field lists over {a ; : \\ " , LF}', allowed_zero=('Next',))
    specs = gen_specs(tier, common.seed())
    rep.evaluations = len(specs)
    with mp.get_context('fork').Pool(common.NCPU) as pool:
        obs = pool.map(common.limited, [(helper_obs, v_) for v_ in specs], chunksize=max(1, len(specs) // 128))
    ok = [o for o in obs if o['outcome']['status'] == 'ok']
    verdicts, st = common.validate_observations(rep.pid, 'Trace_Helpers', ok, tag='helpers')
    rep.add_trace_stats(st, len(ok))
    for o in obs:
        spec = o['_spec']
        what = f"{spec['helper']}({', '.join(f'{k}={v!r}' for k, v in spec['kw'].items())})"[:200]
        if o['outcome']['status'] != 'ok':
            is_ve = 'ValueError' in o['outcome'].get('mro', [])
            if spec['must_refuse'] and is_ve:
                rep.keys.add(('refused', what))
                continue
            rep.violation({'kind': 'helpers', 'module': 'props_helpers', 'spec': json.loads(json.dumps(spec, default=str)),
                           'failing_clauses': ['unexpected_exception'], 'observed': o['outcome']},
                          f"{what} raised {o['outcome'].get('exc')}: {o['outcome'].get('msg', '')[:80]}")
            continue
        if spec['must_refuse']:
            rep.violation({'kind': 'helpers', 'module': 'props_helpers', 'spec': json.loads(json.dumps(spec, default=str)),
                           'failing_clauses': ['should_have_been_refused']}, f'{what} was accepted')
            continue
        v = verdicts[o['tid']]
        fails = sorted(c for (p, c) in v['fails'])
        rep.keys.add(what)
        rep.sample({'call': what, 'payload': ''.join(chr(c) for c in o.get('payload', []))[:120], 'tlc_fails': fails})
        if fails:
            kf = engine.match_known(rep.pid, fails, [], [k for k in rep.known if k.get('helper') in (None, spec['helper'])])
            if kf:
                rep.known_hit(kf, {'call': what, 'clauses': fails})
            else:
                rep.violation({'kind': 'helpers', 'module': 'props_helpers', 'spec': json.loads(json.dumps(spec, default=str)), 'failing_clauses': fails},
                              f'{what}: fails {fails}')
    symbol_part(rep, tier)
    rep.trusted += ['Python codecs (UTF-8 bytes of mail subjects, decoding of the EPC payload with the character set it announces)']
    rep.rule = ('all strings of length <= 2 (thorough: <= 3) over {a ; : \\ " , LF} plus adversarial strings as SSID / password / MeCard and vCard '
                'values, multi-valued and empty fields, dates; geo coordinates with 0..8 decimals; mailto subjects / bodies with URI '
                'delimiters and non-ASCII text; EPC: 9 names needing different character sets x amounts {0.01 .. 999999999.99, 0/1/2 '
                'decimals, str/int/float/Decimal} x all 8 encodings, limits refused; factory symbols decoded (C01); '
                'distinct non-trivial = distinct calls')


def replay(pid, d):
    common.use_repo()
    spec = d.get('spec')
    if not spec:
        return 1
    o = helper_obs(spec)
    print('call    :', spec['helper'], spec['kw'])
    print('outcome :', o['outcome'], ''.join(chr(c) for c in o.get('payload', []))[:200])
    if o['outcome']['status'] != 'ok':
        ok = spec.get('must_refuse') and 'ValueError' in o['outcome'].get('mro', [])
        print('refused as required' if ok else f'VIOLATION property={pid} replay=(this file)')
        return 0 if ok else 1
    if spec.get('must_refuse'):
        print(f'VIOLATION property={pid} replay=(this file)')
        return 1
    verdicts, _ = common.validate_observations(pid + '_replay', 'Trace_Helpers', [o], shards=1, tag='helpers')
    fails = sorted(c for (p, c) in verdicts[o['tid']]['fails'])
    print('verdict :', fails)
    if not fails:
        return 0
    print(f'VIOLATION property={pid} replay=(this file)')
    return 1


REGISTRY = {'C16': run_c16}
