CONSTANTS
  MaxDelay = 30
INIT TraceInit
NEXT TraceNext
CHECK_DEADLOCK FALSE
INVARIANT ViewerSeesCompleteFile
INVARIANT ViewerOnlyAfterEnvDelete
INVARIANT NothingLeftAfterFailure
INVARIANT NotDeletedEarly
INVARIANT NoDeleterWithoutDelay
INVARIANT CleanupOnlyOnFailure
INVARIANT HandleClosedAtEnd
INVARIANT DeviationNeedsEnv
POSTCONDITION AllJudged
