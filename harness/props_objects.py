"""Beyond the property list (DESIGN 12): the objects the factories return, spec/Objects.tla.

bin/check --extras [--tier quick|thorough]: TLC enumerates creation sequences of QRCode / QRCodeSequence objects and one operation
(==, !=, hash, in, len, attribute access, QRCodeSequence.terminal); the harness builds the objects with the real factories, applies the
operation, and Trace_Objects compares the outcome with the object model.  Not a check of a listed property: a disagreement is reported as
"NONCONFORMANCE spec=Objects", never as a VIOLATION of a property; the summary goes to extras/objects.json."""
import hashlib
import io
import json
import multiprocessing as mp
import os
import time

from . import common, engine

# the two contents of the model, several concrete pairs (equal lengths, different lengths, different modes)
PAIRS_QUICK = [('HELLO WORLD', 'HELLO WORLE'), ('0123456789', 'Ab')]
PAIRS_THOROUGH = PAIRS_QUICK + [('a' * 40, 'a' * 41), ('点茗', '茗点'), ('x ', 'x  ')]


def build(segno, o, pair):
    c = pair[0] if o['content'] == 'a' else pair[1]
    if o['cls'] == 'QRCode':
        return segno.make(c, version=5)
    # a message that fits into one symbol of the requested version is encoded exactly like make() does
    return segno.make_sequence(c, version=5) if o['n'] == 1 else segno.make_sequence(c, symbol_count=o['n'])


def key(qr):
    h = hashlib.sha256()
    for row in qr.matrix:
        h.update(bytes(row) + b'/')
    return h.hexdigest()[:24]


def outcome(fn):
    try:
        v = fn()
    except TypeError:
        return 'TypeError'
    except AttributeError:
        return 'AttributeError'
    except Exception as e:  # noqa
        return 'other:' + type(e).__name__
    return 'True' if v is True else 'False' if v is False else str(v) if isinstance(v, int) else 'present'


def _plugin(qr, *args, **kw):
    return ('plugin called', qr, args, kw)


class _EP:
    name = 'installed'

    def load(self):
        return _plugin


def _entry_points(**params):
    """the installed converters: exactly one, 'installed', in the group segno.plugin.converter"""
    if params.get('group') == 'segno.plugin.converter' and params.get('name') in (None, 'installed'):
        return [_EP()]
    return []


def object_obs(arg):
    from unittest import mock
    with mock.patch('importlib.metadata.entry_points', _entry_points):
        return _object_obs(arg)


def _object_obs(arg):
    vec, pair = arg
    segno = common.use_repo()
    objs = [build(segno, o, pair) for o in vec['objs']]
    op = vec['op']
    x = objs[op['i'] - 1]
    y = objs[op['j'] - 1] if op['j'] else None
    same = True
    name = op['name']
    if name == 'eq':
        got = outcome(lambda: x == y)
    elif name == 'ne':
        got = outcome(lambda: x != y)
    elif name == 'hash':
        got = outcome(lambda: hash(x))
    elif name == 'contains':
        got = outcome(lambda: y in x)
    elif name == 'len':
        got = outcome(lambda: len(x))
    elif name == 'attr':
        got = outcome(lambda: (getattr(x, op['attr']), 'present')[1])
        if got == 'present' and op['attr'].startswith('to_'):
            # the converter is called with the symbol itself (the item of a one-item sequence) in front of the caller's arguments
            try:
                r = getattr(x, op['attr'])(7, k=8)
                same = r[0] == 'plugin called' and r[1] is (x[0] if isinstance(x, tuple) else x) and r[2:] == ((7,), {'k': 8})
            except Exception:  # noqa
                same = False
        elif got == 'present' and isinstance(x, tuple) and op['attr'] not in ('save', 'terminal'):
            try:
                same = bool(getattr(x, op['attr']) == getattr(x[0], op['attr']))
            except Exception:  # noqa
                same = False
    elif name == 'iter_terminal':
        def term(q, **kw):
            out = io.StringIO()
            q.terminal(out=out, **kw)
            return out.getvalue()
        if isinstance(x, tuple):
            got = 'items_in_order'
            same = all(term(x, **kw) == ''.join(term(q, **kw) for q in x) for kw in ({}, {'border': 0}, {'compact': True, 'border': 1}))
        else:
            got = 'single'
    else:
        raise AssertionError(name)
    return {'objs': [dict(o, keys=[key(q) for q in (obj if isinstance(obj, tuple) else (obj,))]) for o, obj in zip(vec['objs'], objs)],
            'op': op, 'got': got, 'same_as_item': same, 'expect_exported': vec['expect'],
            '_what': f"{[(o['cls'], o['content'], o['n']) for o in vec['objs']]} {name} i={op['i']} j={op['j']} {op['attr']} contents={pair!r}"}


def run(tier):
    t0 = time.time()
    rep = engine.Report('objects', tier)
    cfg = 'Objects_quick.cfg' if tier == 'quick' else 'Objects_thorough.cfg'
    out, st = common.run_tlc('Objects', cfg=cfg, workers=4, timeout=1500, xmx='4g', coverage=True)
    rep.add_design('Objects', cfg, out, st, 'creation sequences x operations; invariants EqReflexive, EqSymmetric, EqTransitive, EqCongruence, '
                   'SymbolNeverEqualsSequence, DelegationIffSingle, NeIsNotEq; export of vectors')
    vecs = common.parse_vectors(out)
    pairs = PAIRS_QUICK if tier == 'quick' else PAIRS_THOROUGH
    work = [(v, p) for v in vecs for p in pairs]
    with mp.get_context('fork').Pool(common.NCPU) as pool:
        obs = pool.map(object_obs, work, chunksize=max(1, len(work) // 128))
    verdicts, st = common.validate_observations('objects', 'Trace_Objects', obs, tag='objects')
    bad = []
    for o in obs:
        v = verdicts[o['tid']]
        fails = sorted(c for (p, c) in v['fails'])
        if v['facts'].get('expected') != o['expect_exported']:
            fails.append('trace_machine_differs_from_exported_vector')
        if fails:
            bad.append((o['_what'], fails, o['got'], v['facts'].get('expected')))
    for what, fails, got, exp in bad[:25]:
        print(f'NONCONFORMANCE spec=Objects {what}: got {got}, specified {exp}; fails {fails}')
    summary = {'spec': 'Objects.tla', 'tier': tier, 'design_run': rep.design, 'vectors_exported_by_tlc': len(vecs), 'content_pairs': pairs,
               'observations_judged_by_tlc': len(obs), 'trace_states': st['states'], 'nonconformances': len(bad), 'wall_s': round(time.time() - t0, 1),
               'note': 'not a check of a listed property; see DESIGN.md section 12'}
    os.makedirs(os.path.join(common.VERIF, 'extras'), exist_ok=True)
    with open(os.path.join(common.VERIF, 'extras', 'objects.json'), 'w') as f:
        json.dump(summary, f, indent=1)
    print(f"extras objects {tier}: {len(vecs)} vectors x {len(pairs)} content pairs = {len(obs)} observations judged by TLC, "
          f"{len(bad)} nonconformances, {time.time() - t0:.0f}s")
    return 1 if bad else 0
