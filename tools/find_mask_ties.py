"""Search for contents whose ISO mask evaluation has an exact tie at the minimum (candidate selector for the C06 corpus).

The scorer below is an independent Python transcription of ISO/IEC 18004 7.8.3 (as in spec/Codec.tla: Penalty with N3Iso); it only
SELECTS candidates - the oracle for the check remains TLC, which re-evaluates every corpus entry with Codec!MaskScores.
usage: find_mask_ties.py <n candidates> <seed>  -> harness/data/mask_ties.json
"""
import json
import os
import random
import sys
from concurrent.futures import ProcessPoolExecutor
sys.path.insert(0, os.environ.get('VERIF_REPO', '/repo'))
import segno  # noqa: E402


def run_score(line):
    tot, prev, cnt = 0, 2, 0
    for b in line:
        if b == prev:
            cnt += 1
        else:
            if cnt >= 5:
                tot += cnt - 2
            prev, cnt = b, 1
    if cnt >= 5:
        tot += cnt - 2
    return tot


def n3(line):
    n = len(line)

    def light(j):
        return j < 0 or j >= n or line[j] == 0
    tot = 0
    for k in range(n - 6):
        if line[k:k + 7] == [1, 0, 1, 1, 1, 0, 1]:
            if all(light(k - i) for i in (1, 2, 3, 4)) or all(light(k + 6 + i) for i in (1, 2, 3, 4)):
                tot += 40
    return tot


def parts(m):
    n = len(m)
    cols = [[m[r][c] for r in range(n)] for c in range(n)]
    n1 = sum(run_score(x) for x in m) + sum(run_score(x) for x in cols)
    n2 = 3 * sum(1 for r in range(n - 1) for c in range(n - 1) if m[r][c] == m[r][c + 1] == m[r + 1][c] == m[r + 1][c + 1])
    n3_ = sum(n3(x) for x in m) + sum(n3(x) for x in cols)
    dark = sum(map(sum, m))
    dev = abs(2 * dark - n * n)
    n4 = 10 * ((dev * 10) // (n * n))
    return n1, n2, n3_, n4


def blank(m):
    n = len(m)
    m = [list(r) for r in m]
    for i in range(9):
        if i != 6:
            m[8][i] = 0
            m[i][8] = 0
    for i in range(n - 8, n):
        m[8][i] = 0
        m[i][8] = 0
    if n >= 45:        # version information (v >= 7)
        for i in range(6):
            for j in range(n - 11, n - 8):
                m[i][j] = 0
                m[j][i] = 0
    return m


def examine(args):
    content, version, error = args
    sc = []
    for mask in range(8):
        qr = segno.make_qr(content, version=version, error=error, mask=mask, boost_error=False)
        sc.append(parts(blank([list(r) for r in qr.matrix])))
    tot = [sum(p) for p in sc]
    best = min(tot)
    tied = [i for i, t in enumerate(tot) if t == best]
    if len(tied) < 2:
        return None
    cat = 'tie'
    if any(sc[j][3] > 0 for j in tied[1:]):
        cat = 'tie_later_has_n4'
    if sc[tied[0]][3] > 0:
        cat = 'tie_first_has_n4' if cat == 'tie' else 'tie_both_n4'
    if len(tied) > 2:
        cat += '_threeway'
    return {'content': content, 'version': version, 'error': error, 'tied': tied, 'parts': [list(sc[i]) for i in tied], 'cat': cat}


def main():
    want, seed = int(sys.argv[1]), int(sys.argv[2])
    r = random.Random(seed)
    alpha = 'ABCDEFGHIJKLMNOPQRSTUVWXYZabcdefghijklmnopqrstuvwxyz0123456789 $%*+-./:'
    found = {}
    batch = 0
    with ProcessPoolExecutor(16) as ex:
        while batch < 400:
            batch += 1
            jobs = []
            for _ in range(4000):
                v = r.choice((1, 1, 1, 2, 3))
                e = r.choice('LMQH')
                n = r.randint(1, {1: 7, 2: 14, 3: 24}[v])
                kind = r.random()
                c = ''.join(r.choice(alpha if kind < 0.5 else ('0123456789' if kind < 0.75 else alpha[:26])) for _ in range(n))
                jobs.append((c, v, e))
            for res in ex.map(examine, jobs, chunksize=100):
                if res and res['cat'] != 'tie':
                    found.setdefault(res['cat'], [])
                    if len(found[res['cat']]) < want:
                        found[res['cat']].append(res)
                elif res:
                    found.setdefault('tie', [])
                    if len(found['tie']) < want:
                        found['tie'].append(res)
            print(batch, {k: len(v) for k, v in found.items()}, flush=True)
            if all(len(found.get(k, [])) >= want for k in ('tie', 'tie_later_has_n4', 'tie_first_has_n4')):
                break
    out = [x for k in sorted(found) for x in found[k]]
    with open(os.path.join(os.path.dirname(__file__), '..', 'harness', 'data', 'mask_ties.json'), 'w') as f:
        json.dump({'note': 'candidates selected by tools/find_mask_ties.py (independent Python scorer); TLC re-evaluates every entry', 'seed': seed, 'entries': out}, f, indent=0)
    print('written', len(out))


if __name__ == '__main__':
    main()
