"""bin/check <ID> --replay FILE: re-execute the recorded call against the current tree and re-validate it with TLC."""
import json
from . import common, engine, symobs


def replay(pid, path):
    with open(path) as f:
        d = json.load(f)
    kind = d.get('kind', 'symbol')
    if kind != 'symbol':
        mod = __import__('harness.' + d['module'], fromlist=['replay'])
        return mod.replay(pid, d)
    common.use_repo()
    o = symobs.observe(d['call'], d.get('props') or [pid])
    o['exp'].update(d.get('exp_extra') or {})
    print('call    :', engine.brief_call(d['call']))
    print('outcome :', o['outcome'])
    if 'res' not in o:
        print('no symbol was returned; nothing to validate')
        return 0
    verdicts, _ = common.validate_observations(pid + '_replay', 'Trace_Sym', [o], shards=1)
    v = verdicts[o['tid']]
    fails = [c for (p, c) in v['fails'] if p == pid]
    print('verdict :', {'failing_clauses': fails, 'deviations': v['devs'],
                        'facts': {k: x for k, x in v['facts'].items() if k != 'scores'}})
    if not fails:
        print('the observation conforms to the specification')
        return 0
    kf = engine.match_known(pid, fails, v['devs'], common.load_known_findings())
    if kf:
        print(f"KNOWN-FINDING: property={pid} {kf['id']} {kf['what']}")
        return 0
    print(f'VIOLATION property={pid} replay={path}')
    return 1
