CONSTANTS
  Alphabet = {97}
  MaxLen = 0
  MaxFields = 0
INIT TraceInit
NEXT TraceNext
CHECK_DEADLOCK FALSE
POSTCONDITION AllJudged
