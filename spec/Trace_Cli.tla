------------------------------ MODULE Trace_Cli ------------------------------
(* Conformance of segno.cli with Cli.tla: the machine is run from the observation's flags; in its terminal state the API call it
   arrives at must be the one the harness executed as reference, and the observed run of the tool must have the outcome the
   specification gives: usage error (exit 2, nothing written), or exactly what the API call does (document byte-identical; a
   ValueError of the API = message on stderr, exit status 1, nothing written). *)
EXTENDS Cli, IOUtils, TLCExt
Obs == JsonDeserialize(IOEnv.TRACE_FILE)
N == Len(Obs)
VARIABLES tid, judged
tvars == <<tid, judged>>
TraceInit == /\ tid \in 1..N /\ judged = FALSE
             /\ f = Obs[tid].flags /\ pc = "parse" /\ parsed = [x \in {} |-> 0] /\ api = [x \in {} |-> 0] /\ out = "?"
Judge == /\ pc = "done" /\ ~judged /\ judged' = TRUE /\ UNCHANGED <<vars, tid>>
         /\ LET o == Obs[tid]
                fails ==
                  IF out = "exit2" THEN {c \in {"usage_error_exit_2", "nothing_written"} :
                                            CASE c = "usage_error_exit_2" -> o.cli.exit # 2
                                              [] c = "nothing_written" -> o.cli.files # 0}
                  ELSE {c \in {"reference_is_the_specified_call", "same_outcome", "same_document", "refusal_exit_1_message_no_file", "no_traceback"} :
                          CASE c = "reference_is_the_specified_call" -> o.ref_call # api
                            [] c = "same_outcome" -> (o.ref.status = "ok") # (o.cli.exit = 0)
                            [] c = "same_document" -> o.ref.status = "ok" /\ o.cli.exit = 0 /\ (o.cli.sha # o.ref.sha \/ o.cli.files # o.ref.files)
                            [] c = "refusal_exit_1_message_no_file" -> o.ref.status = "ValueError" /\ ~(o.cli.exit = 1 /\ o.cli.files = 0 /\ o.cli.stderr_len > 0)
                            [] c = "no_traceback" -> o.cli.traceback \/ o.ref.status \notin {"ok", "ValueError"}}
            IN PrintT(<<"VERDICT", ToJson([tid |-> o.tid, fails |-> {<<"C12", c>> : c \in fails}, devs |-> {},
                                            facts |-> [spec_out |-> out, api |-> IF out = "exit2" THEN [fn |-> "none"] ELSE api, exit |-> o.cli.exit, ref |-> o.ref.status]])>>)
TraceNext == (Next /\ UNCHANGED tvars) \/ Judge
AllJudged == TLCGet("distinct") >= 3 * N
=============================================================================
