------------------------------- MODULE SegnoSA -------------------------------
(***************************************************************************)
(* segno.make_sequence() / encoder.encode_sequence(): the Structured       *)
(* Append machine.  One action per stage of the implementation:            *)
(*                                                                         *)
(*   SA_Normalize    argument combination checks (Micro version, neither   *)
(*                   version nor symbol_count, symbol_count outside 1..16) *)
(*   SA_Prepare      mode of the (single part) message: requested or first *)
(*                   applicable; refusal if not representable              *)
(*   SA_TrySingle    without symbol_count: if the message fits a single    *)
(*                   symbol not larger than the requested version, return  *)
(*                   ONE ordinary symbol (no Structured Append header)     *)
(*   SA_Split        number of symbols: symbol_count, or (with a version)  *)
(*                   the two-step estimate of number_of_symbols_by_version;*)
(*                   refusals: fewer characters than symbols, > 16 symbols *)
(*                   the message is divided evenly (first r chunks one     *)
(*                   character longer); parity = XOR of all message bytes  *)
(*   Dev_SeqEstimateOnly   (named deviation, KF-C08-1) the same step when  *)
(*                   a chunk does not fit the requested version: the code  *)
(*                   carries on and returns over-full (truncated) symbols  *)
(*   SA_PickVersion  with symbol_count: the first version that holds the   *)
(*                   longest chunk including the 20 header bits            *)
(*   SA_EncodeNext   one symbol: SA header (position, total-1, parity),    *)
(*                   optional ECI header, the chunk; per-symbol level      *)
(*                   boost; terminator, padding, RS, mask, matrix          *)
(*   SA_Return                                                             *)
(*                                                                         *)
(* The invariants state C08 (count, version, headers, parity, reassembly   *)
(* through the reference DECODER) on every behaviour without a deviation   *)
(* step; returned states are exported for exact-matrix conformance.        *)
(***************************************************************************)
EXTENDS SymCheck, Json

CONSTANTS MsgPool,       \* set of messages [bytes, enc]   enc = "l1" | "u8"
          ReqModesSA, ReqVersionsSA, ReqCountsSA, ReqLevelsSA, ReqEciSA, ReqBoostSA,
          AllowDevPadSA, AllowDevEstimate

NoVersionSA == 99
NoCount == -1

VARIABLES msg, q,       \* message and arguments [mode, version, count, error, eci, boost]
          st,           \* stage
          smode,        \* mode of the message
          nsym, sver,   \* number of symbols, version of the symbols
          syms,         \* symbols encoded so far: [version, error, mask, M, segs]
          res,          \* "?" | "ok" | "ValueError" | "DataOverflowError"
          devs,         \* named deviation steps taken
          padmode       \* "iso" | "dev": whether aligned streams get the surplus zero codeword of KF-C13-1 - one choice per behaviour
                        \* (an implementation either has the deviation or not; a choice per symbol would give 2^16 behaviours)
savars == <<msg, q, st, smode, nsym, sver, syms, res, devs, padmode>>

Lvl == IF q.error = "-" THEN "L" ELSE q.error
RepresentableSA(m, cls) == CASE m = "numeric" -> cls = "num" [] m = "alphanumeric" -> cls \in {"num", "alnum"}
                             [] m = "byte" -> TRUE [] m = "kanji" -> cls = "kanji" [] m = "hanzi" -> cls = "hanzi"
Unit == IF smode \in {"kanji", "hanzi"} THEN 2 ELSE 1
Units == Len(msg.bytes) \div Unit
XorBytes(bytes) == FoldLeft(LAMBDA x, b : x ^^ b, 0, bytes)
CeilDivSA(x, y) == (x + y - 1) \div y
EciSeg == IF q.eci /\ smode = "byte" /\ msg.enc = "u8" THEN <<[kind |-> "eci", num |-> 26]>> ELSE <<>>
DataSeg(bytes) == [kind |-> "data", mode |-> smode, enc |-> msg.enc, bytes |-> bytes]
\* evenly divided chunks: the first (Units % n) chunks are one character longer
ChunkLen(n, i) == Units \div n + (IF i <= Units % n THEN 1 ELSE 0)
ChunkOff(n, i) == (i - 1) * (Units \div n) + Min2(i - 1, Units % n)
Chunk(n, i) == SubSeq(msg.bytes, Unit * ChunkOff(n, i) + 1, Unit * (ChunkOff(n, i) + ChunkLen(n, i)))
SegsOf(n, i, withSA) == (IF withSA THEN <<[kind |-> "sa", idx |-> i - 1, total |-> n - 1, parity |-> XorBytes(msg.bytes)]>> ELSE <<>>)
                        \o EciSeg \o <<DataSeg(Chunk(n, i))>>
FitsSA(v, e, n, i) == CapT(v, e) >= StreamLen(v, SegsOf(n, i, TRUE))
\* number_of_symbols_by_version: the estimate counts 7 bits for the final group of a numeric message also when there is none,
\* and 12 bits per additional symbol for ECI whenever eci is requested
EstimatedCountSA(v) ==
  LET est == IF smode = "numeric" THEN 10 * (Units \div 3) + (IF Units % 3 = 1 THEN 4 ELSE 7) ELSE DataLen(smode, Units)
      ecihdr == IF q.eci /\ smode = "byte" /\ msg.enc = "u8" THEN 12 ELSE 0
      bits == 4 + CCBits(v, smode) + ecihdr + 20 + est
      cnt == CeilDivSA(bits, CapT(v, Lvl))
  IN CeilDivSA(bits + 20 * (cnt - 1) + (IF q.eci THEN 12 * (cnt - 1) ELSE 0), CapT(v, Lvl))

SAInit == /\ msg \in MsgPool
          /\ q \in [mode : ReqModesSA, version : ReqVersionsSA, count : ReqCountsSA, error : ReqLevelsSA, eci : ReqEciSA, boost : ReqBoostSA]
          /\ st = "start" /\ smode = "?" /\ nsym = 0 /\ sver = NoVersionSA /\ syms = <<>> /\ res = "?" /\ devs = {}
          /\ padmode \in (IF AllowDevPadSA THEN {"iso", "dev"} ELSE {"iso"})

Refuse(kind) == /\ st' = "done" /\ res' = kind /\ UNCHANGED <<msg, q, smode, nsym, sver, syms, devs, padmode>>

SA_Normalize ==
  /\ st = "start"
  /\ IF (q.version # NoVersionSA /\ q.version < 1) \/ (q.version = NoVersionSA /\ q.count = NoCount) \/ (q.count # NoCount /\ q.count \notin 1..16)
     THEN Refuse("ValueError")
     ELSE st' = "normalized" /\ UNCHANGED <<msg, q, smode, nsym, sver, syms, res, devs, padmode>>

SA_Prepare ==
  /\ st = "normalized"
  /\ LET cls == ClassOfBytes(msg.bytes, q.mode = "hanzi", FALSE)
         m == IF q.mode # "none" THEN q.mode ELSE AutoMode(cls) IN
     IF q.mode # "none" /\ ~RepresentableSA(q.mode, cls)
     THEN Refuse("ValueError")
     ELSE smode' = m /\ st' = "prepared" /\ UNCHANGED <<msg, q, nsym, sver, syms, res, devs, padmode>>

\* boosting of one symbol (single segment): climb while the next level still holds the stream
BoostedLevel(v, e, need) ==
  IF ~q.boost \/ e = "H" THEN e
  ELSE FoldLeft(LAMBDA s, f : IF s[2] /\ LevelIdx(f) > LevelIdx(s[1]) /\ CapT(v, f) >= need THEN <<f, TRUE>>
                               ELSE IF LevelIdx(f) > LevelIdx(s[1]) THEN <<s[1], FALSE>> ELSE s, <<e, TRUE>>, Levels)[1]
\* the data bit stream with terminator and padding; devpad: the surplus zero codeword of KF-C13-1
StreamSA(v, e, segs, devpad) ==
  LET s == FoldLeft(LAMBDA x, sg : x \o EncodeSeg(v, sg), <<>>, segs)
      cap == Cap(v, e)
      t == s \o Zeros(Min2(cap - Len(s), 4))
      p == IF devpad THEN t \o Zeros(Min2(8, cap - Len(t)))
           ELSE t \o Zeros(IF Len(t) % 8 = 0 THEN 0 ELSE Min2(8 - (Len(t) % 8), cap - Len(t)))
      full == (cap - Len(p)) \div 8
  IN p \o FoldLeft(LAMBDA x, i : x \o PadCW(i), <<>>, Iota(full))
DevPadApplies(v, e, segs) ==
  LET n == StreamLen(v, segs) cap == Cap(v, e) t == n + Min2(cap - n, 4) IN t % 8 = 0 /\ t < cap
SymbolOf(v, e, segs, devpad) ==
  LET fbits == FinalBits(v, e, StreamSA(v, e, segs, devpad))
      M0 == BuildMatrix(v, e, 0, fbits)
      m == BestOf(MaskScores(M0, v, 0, N3Iso), FALSE)
  IN [version |-> v, error |-> e, mask |-> m, M |-> BuildMatrix(v, e, m, fbits), segs |-> segs]

FirstFitSingle == LET S == SelectSeq([k \in 1..40 |-> k], LAMBDA v : CapT(v, Lvl) >= StreamLen(v, SegsOf(1, 1, FALSE)))
                  IN IF S = <<>> THEN NoVersionSA ELSE S[1]
SA_TrySingle ==
  /\ st = "prepared"
  /\ LET g == FirstFitSingle IN
     IF q.count = NoCount /\ g # NoVersionSA /\ g <= q.version
     THEN LET v == q.version segs == SegsOf(1, 1, FALSE) e == BoostedLevel(v, Lvl, StreamLen(v, segs))
              devpad == padmode = "dev" /\ DevPadApplies(v, e, segs) IN
            /\ syms' = <<SymbolOf(v, e, segs, devpad)>>
            /\ devs' = IF devpad THEN devs \cup {"Dev_PadBitsWhenAligned"} ELSE devs
            /\ nsym' = 1 /\ sver' = v /\ st' = "returned" /\ res' = "ok" /\ UNCHANGED <<msg, q, smode, padmode>>
     ELSE st' = "split" /\ UNCHANGED <<msg, q, smode, nsym, sver, syms, res, devs, padmode>>

SA_Split ==
  /\ st = "split"
  /\ IF q.count # NoCount /\ Units < q.count THEN Refuse("ValueError")
     ELSE LET n == IF q.version # NoVersionSA THEN EstimatedCountSA(q.version) ELSE q.count IN
          IF n > 16 THEN Refuse("DataOverflowError")
          ELSE /\ (q.count = NoCount => \A i \in 1..n : FitsSA(q.version, Lvl, n, i))       \* otherwise only the deviation explains the code
               /\ nsym' = n /\ sver' = q.version
               /\ st' = (IF q.count # NoCount THEN "pickversion" ELSE "encode")
               /\ UNCHANGED <<msg, q, smode, syms, res, devs, padmode>>
Dev_SeqEstimateOnly ==
  /\ AllowDevEstimate /\ st = "split" /\ q.count = NoCount
  /\ LET n == EstimatedCountSA(q.version) IN
     /\ n <= 16 /\ \E i \in 1..n : ~FitsSA(q.version, Lvl, n, i)
     /\ nsym' = n /\ sver' = q.version /\ devs' = devs \cup {"Dev_SeqEstimateOnly"}
     /\ st' = "returned_overfull" /\ res' = "ok" /\ UNCHANGED <<msg, q, smode, syms, padmode>>

SA_PickVersion ==
  /\ st = "pickversion"
  /\ LET S == SelectSeq([k \in 1..40 |-> k], LAMBDA v : FitsSA(v, Lvl, nsym, 1)) IN        \* chunk 1 is a longest chunk
     IF S = <<>> THEN Refuse("DataOverflowError")
     ELSE sver' = S[1] /\ st' = "encode" /\ UNCHANGED <<msg, q, smode, nsym, syms, res, devs, padmode>>

SA_EncodeNext ==
  /\ st = "encode" /\ Len(syms) < nsym
  /\ LET i == Len(syms) + 1 segs == SegsOf(nsym, i, TRUE) e == BoostedLevel(sver, Lvl, StreamLen(sver, segs)) IN
     LET devpad == padmode = "dev" /\ DevPadApplies(sver, e, segs) IN
        /\ syms' = Append(syms, SymbolOf(sver, e, segs, devpad))
        /\ devs' = IF devpad THEN devs \cup {"Dev_PadBitsWhenAligned"} ELSE devs
  /\ UNCHANGED <<msg, q, st, smode, nsym, sver, res, padmode>>
SA_Return == /\ st = "encode" /\ Len(syms) = nsym /\ st' = "returned" /\ res' = "ok" /\ UNCHANGED <<msg, q, smode, nsym, sver, syms, devs, padmode>>

SANext == SA_Normalize \/ SA_Prepare \/ SA_TrySingle \/ SA_Split \/ Dev_SeqEstimateOnly \/ SA_PickVersion \/ SA_EncodeNext \/ SA_Return

(* ------------------------------------------------------------------ properties (C08, C07 on sequences) *)
ReturnedSA == st = "returned"
DecS(i) == Decode(syms[i].M)
C08_Count == ReturnedSA => /\ Len(syms) \in 1..16
                           /\ (q.count # NoCount /\ q.version = NoVersionSA => Len(syms) = q.count)
C08_Version == ReturnedSA => /\ \A i \in 1..Len(syms) : DecS(i).v >= 1 /\ DecS(i).v = syms[i].version
                             /\ (q.version # NoVersionSA /\ q.count = NoCount => \A i \in 1..Len(syms) : DecS(i).v = q.version)
C08_EachValid == ReturnedSA => \A i \in 1..Len(syms) : DecS(i).fmt.valid /\ DecS(i).d.rs_ok /\ DecS(i).d.parse = "end"
C08_Headers == ReturnedSA /\ Len(syms) > 1 =>
   \A i \in 1..Len(syms) : LET ds == DecS(i).d.segs IN
       /\ ds[1].kind = "sa" /\ ds[1].idx = i - 1 /\ ds[1].total = Len(syms) - 1 /\ ds[1].parity = XorBytes(msg.bytes)
       /\ \A k \in 2..Len(ds) : ds[k].kind # "sa"
C08_Reassembly == ReturnedSA => FoldLeft(LAMBDA x, i : x \o DecS(i).d.payload, <<>>, Iota(Len(syms))) = msg.bytes
C07_SeqMode == ReturnedSA /\ q.mode = "none" =>
   \A i \in 1..Len(syms) : \A k \in 1..Len(DecS(i).d.segs) :
       DecS(i).d.segs[k].kind = "data" => DecS(i).d.segs[k].mode = AutoMode(ClassOfBytes(msg.bytes, FALSE, FALSE))
C05_SeqLevel == ReturnedSA => \A i \in 1..Len(syms) : LevelIdx(DecS(i).fmt.level) >= LevelIdx(Lvl)
C13_SeqTail == ReturnedSA /\ "Dev_PadBitsWhenAligned" \notin devs =>
   \A i \in 1..Len(syms) : LET p == StreamLen(syms[i].version, syms[i].segs) d == DecS(i).d.dbits IN
       SubSeq(d, p + 1, Len(d)) = IsoTail(syms[i].version, Cap(syms[i].version, syms[i].error), p)
\* no behaviour gets stuck before an outcome: every non-terminal state has a successor (with the deviation actions enabled)
SA_Progress == st \notin {"returned", "returned_overfull", "done"} => ENABLED SANext
SAExport == (st \in {"returned", "returned_overfull", "done"}) =>
   PrintT(<<"VECTOR", ToJson([msg |-> msg, q |-> q, st |-> st, res |-> res, devs |-> devs, n |-> nsym, version |-> sver,
                                syms |-> [i \in 1..Len(syms) |-> [version |-> syms[i].version, error |-> syms[i].error, mask |-> syms[i].mask, matrix |-> syms[i].M]]])>>)
=============================================================================
