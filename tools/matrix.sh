#!/bin/sh
# usage: matrix.sh <out file> <lanes>  -- runs every quick check against every seeded mutant (scratch worktrees), appends lines "<mutant> <check> exit=.."
OUT="${1:-/tmp/mw/matrix.txt}"; LANES="${2:-3}"
cd /verif
: > "$OUT.todo"
for m in $(ls seeded); do for p in C01 C02 C03 C04 C05 C06 C07 C08 C09 C10 C11 C12 C13 C14 C15 C16; do
  grep -q "^$m $p " "$OUT" 2>/dev/null || echo "$m $p" >> "$OUT.todo"; done; done
cat "$OUT.todo" | xargs -P "$LANES" -L 1 sh -c 'tools/run_mutant.sh "$0" "$1" | cut -c1-160 >> '"$OUT"
echo MATRIX-DONE >> "$OUT"
