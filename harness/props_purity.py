"""C15: purity - deterministic, history-free, thread-safe, idempotent."""
import hashlib
import io
import json
import os
import subprocess
import sys
import threading
import multiprocessing as mp
from concurrent.futures import ThreadPoolExecutor
from . import common, symobs, gen, engine
from .symobs import call


# ------------------------------------------------------------------ digests (the projection of the abstract state)
def sha(x):
    return hashlib.sha256(x if isinstance(x, bytes) else repr(x).encode('utf-8', 'backslashreplace')).hexdigest()[:20]


def tables_digest():
    """Digest of the lookup tables of the library (everything in segno.consts plus the named tables of the other modules)."""
    import segno
    from segno import consts, writers, encoder, helpers, cli
    parts = []
    for name in sorted(vars(consts)):
        if name.startswith('__'):
            continue
        v = getattr(consts, name)
        if isinstance(v, (dict, list, tuple, bytes, bytearray, str, int, frozenset, set)):
            parts.append((name, repr(sorted(v.items(), key=repr)) if isinstance(v, dict) else repr(v)))
    parts.append(('_NAME2RGB', repr(sorted(writers._NAME2RGB.items()))))
    parts.append(('_VALID_SERIALIZERS', repr(sorted(writers._VALID_SERIALIZERS))))
    parts.append(('_ALPHA_COMMONS', repr(sorted(writers._ALPHA_COMMONS.items()))))
    parts.append(('_EXT_TO_KW_MAPPING', repr(sorted((k, sorted(v)) for k, v in cli._EXT_TO_KW_MAPPING.items()))))
    parts.append(('_FINDER_PATTERN', repr(encoder._FINDER_PATTERN)))
    parts.append(('_MECARD_ESCAPE', repr(sorted(helpers._MECARD_ESCAPE.items()))))
    parts.append(('_VCARD_ESCAPE', repr(sorted(helpers._VCARD_ESCAPE.items()))))
    return sha(repr(parts))


def sym_digest(qr):
    return sha((tuple(bytes(r) for r in qr.matrix), qr.version, qr.error, qr.mask, qr.mode))


def result_digest(r):
    if isinstance(r, tuple) and not hasattr(r, 'matrix'):       # QRCodeSequence
        return sha(tuple(sym_digest(q) for q in r))
    return sym_digest(r)


def exc_digest(e):
    return 'raise:' + type(e).__name__


# ------------------------------------------------------------------ the call alphabet
def alphabet(seed_):
    """Named calls; neighbours differ in exactly one argument (what an incomplete cache key would confuse)."""
    r = gen.rng(seed_, 'C15', 'alphabet')
    A = {}

    def add(name, api, content, **kw):
        A[name] = call(api, content, **kw)
    b17 = 'a' * 15 + 'xy'                    # 17 bytes: fills 1-L (byte mode) exactly
    u17 = 'a' * 15 + 'ü'                     # 17 bytes in UTF-8, 16 in latin-1
    add('byte17', 'make', b17, micro=False, error='L', boost_error=False)
    add('byte17_eci', 'make', b17, micro=False, error='L', boost_error=False, eci=True)
    add('u17_utf8_eci', 'make', u17, micro=False, error='L', boost_error=False, eci=True, encoding='utf-8')
    add('u17_utf8', 'make', u17, micro=False, error='L', boost_error=False, encoding='utf-8')
    add('u17_latin1_eci', 'make', u17, micro=False, error='L', boost_error=False, eci=True, encoding='iso-8859-1')
    add('u17_auto', 'make', u17, micro=False, error='L', boost_error=False)
    add('bytes17', 'make', b'a' * 15 + b'\xc3\xbc', micro=False, error='L', boost_error=False)
    add('bytes17_utf8_eci', 'make', b'a' * 15 + b'\xc3\xbc', micro=False, error='L', boost_error=False, eci=True, encoding='utf-8')
    # automatic level with an ECI header, one byte below each level boundary of versions 1 and 2 (the re-encoding clause: the chosen
    # version / level / mask requested explicitly must be accepted and reproduce the symbol)
    for nb in (7, 11, 14, 20, 26):
        add(f'eci_utf8_{nb}', 'make', 'a' * (nb - 2) + '\xfc', micro=False, eci=True, encoding='utf-8')
        add(f'eci_alias_{nb}', 'make', 'a' * (nb - 1) + '\xfc', micro=False, eci=True, encoding='latin1')
    for lvl in ('L', 'M', 'Q', 'H'):
        add('hello_' + lvl, 'make', 'Hello World', error=lvl, micro=False)
        add('hello_noboost_' + lvl, 'make', 'Hello World', error=lvl, micro=False, boost_error=False)
    add('hello_auto', 'make', 'Hello World')
    add('hello_micro', 'make', 'Hello World', micro=True)
    for m in (0, 3, 7):
        add(f'hello_mask{m}', 'make', 'Hello World', micro=False, mask=m)
    add('hello_v2', 'make', 'Hello World', version=2)
    add('hello_v3', 'make', 'Hello World', version=3)
    add('hello_bytemode', 'make', 'HELLO WORLD', mode='byte', micro=False)
    add('HELLO_alnum', 'make', 'HELLO WORLD', micro=False)
    add('digits', 'make', '0123456789')
    add('digits_qr', 'make', '0123456789', micro=False)
    add('digits_int', 'make', 123456789)
    add('digits_alnum', 'make', '0123456789', mode='alphanumeric')
    add('kanji', 'make', '点茗')
    add('kanji_byte', 'make', '点茗', mode='byte')
    add('kanji_utf8', 'make', '点茗', encoding='utf-8')
    add('hanzi', 'make', '书读百遍', mode='hanzi')
    add('parts_user_alice', 'make', ['user=', 'alice'], micro=False)
    add('parts_user_bob', 'make', ['user=', 'bob'], micro=False)
    add('user', 'make', 'user=', micro=False)
    add('alice', 'make', 'alice', micro=False)
    add('user_alice', 'make', 'user=alice', micro=False)
    add('parts_num', 'make', ['123', '456'])
    add('parts_num2', 'make', ['12', '3456'])
    add('num_123456', 'make', '123456')
    add('parts_mixed', 'make', ['12', 'AB', 'cd'])
    add('m1', 'make', '12345')
    add('m2', 'make', '12345', error='L')
    add('m3', 'make', 'abc', micro=True)
    add('m4q', 'make', 'abcd', error='Q', micro=True)
    add('v5', 'make', gen.latin1(r, 90), micro=False)
    add('v5b', 'make', gen.latin1(r, 90), micro=False)
    add('v10', 'make', gen.alnum(r, 300), version=10)
    add('v10b', 'make', gen.alnum(r, 300), version=10)
    add('v20', 'make', gen.digits(r, 1500), version=20, error='L')
    add('v20b', 'make', gen.digits(r, 1500), version=20, error='L')
    add('seq_v1', 'make_sequence', 'Structured Append structured append', version=1)
    add('seq_sc3', 'make_sequence', 'Structured Append structured append', symbol_count=3)
    add('seq_sc3_q', 'make_sequence', 'Structured Append structured append', symbol_count=3, error='Q')
    add('seq_single', 'make_sequence', 'short', version=2)
    # serialisations (make + save): the document must not depend on what was rendered before
    def render(name, kind, **save):
        A[name] = {'api': 'render', 'content': symobs.enc_content('Render me'), 'kw': {'make': {'micro': False}, 'kind': kind, 'save': save}}
    # symbols that are created, serialised and DROPPED inside one call (the next symbol may get the same address: caches keyed by id())
    def render_of(name, content, make_kw, kind, **save):
        A[name] = {'api': 'render', 'content': symobs.enc_content(content), 'kw': {'make': make_kw, 'kind': kind, 'save': save}}
    for tag, content in (('a', gen.alnum(r, 200)), ('b', gen.alnum(r, 200)), ('c', gen.latin1(r, 150))):
        render_of(f'drop10{tag}_ppm', content, {'version': 10}, 'ppm')
        render_of(f'drop10{tag}_iterv', content, {'version': 10}, 'iterv')
        render_of(f'drop10{tag}_png', content, {'version': 10}, 'png', finder_dark='red', alignment_dark='blue')
        render_of(f'drop12{tag}_svg', content, {'version': 12}, 'svg', data_dark='navy', timing_dark='green')
    render('pam_alpha_int1', 'pam', dark=(10, 20, 30, 1))
    render('pam_alpha_float1', 'pam', dark=(10, 20, 30, 1.0))
    render('pam_light_int1', 'pam', light=(250, 250, 250, 1))
    render('pam_light_float1', 'pam', light=(250, 250, 250, 1.0))
    render('xpm_float1', 'xpm', dark=(10, 20, 30, 1.0))
    render('png_black_name', 'png', dark='black', finder_dark='#000', scale=2)
    render('png_black_tuple', 'png', dark=(0, 0, 0), finder_dark='black', scale=2)
    render('png_alpha', 'png', dark='#00000080')
    render('svg_red', 'svg', dark='red', scale=2)
    render('svg_red_hex', 'svg', dark='#ff0000', scale=2)
    render('svg_default', 'svg')
    render('eps_blue', 'eps', dark='blue', light='white')
    render('pdf_blue', 'pdf', dark='blue', light='#fff')
    render('ppm_grey', 'ppm', dark='gray', light='silver')
    render('txt', 'txt')
    render('xbm_s2', 'xbm', scale=2)
    # the extremes of the version range (tables indexed by the version constant: M1 = -3 ... 40)
    for v in (38, 39, 40):
        add(f'big_v{v}', 'make', 'TEST', version=v)
    add('sparse_v12a', 'make', 'A', version=6)
    add('sparse_v12b', 'make', 'B', version=6, error='M')
    add('sparse_v22', 'make', 'C', version=22)
    add('big_m1_v', 'make', '123', version='M1')
    add('big_m2_v', 'make', '123', version='M2')
    add('big_m3_v', 'make', '123', version='M3')
    add('big_m4_v', 'make', '123', version='M4')
    # arguments that compare equal but mean different things (1 == 1.0 == True): a cache keyed by the argument confuses them
    for kind in ('svg', 'png', 'pdf', 'eps', 'ppm'):
        render(f'{kind}_alpha_int1', kind, dark=(0, 0, 139, 1))
        render(f'{kind}_alpha_float1', kind, dark=(0, 0, 139, 1.0))
    # contents that compare equal but are different contents (1 / True -> '1' / 'True'), alone and as a part
    add('content_int1', 'make', 1)
    add('content_true', 'make', True)
    add('content_int0', 'make', 0, micro=False)
    add('content_false', 'make', False, micro=False)
    add('content_parts_int1', 'make', [1, 'A'])
    add('content_parts_true', 'make', [True, 'A'])
    render('svg_scale_int', 'svg', scale=2)
    render('svg_scale_float', 'svg', scale=2.0)
    render('svg_scale_true', 'svg', scale=True)
    render('png_dark_alpha_light_none', 'png', dark='#00008b80', light=None)
    render('png_light_alpha_dark_none', 'png', dark=None, light=(255, 255, 0, 0.5))
    render('png_both_none_finder', 'png', dark=None, light=None, finder_dark='#00f')
    render('svg_dark_none', 'svg', dark=None, light='yellow')
    add('refused_overflow', 'make', 'x' * 30, version=1, error='H')
    # calls that fail must fail again (a failing call must not leave a half-built entry in a table of the library)
    add('refused_eci_koi8', 'make', '\u041f\u0440\u0438\u0432\u0435\u0442', eci=True, encoding='koi8-r')
    add('refused_eci_utf16', 'make', 'abc', eci=True, encoding='utf-16', micro=False)
    add('refused_eci_cp850', 'make', '\xe4\xf6', eci=True, encoding='cp850')
    add('ok_eci_koi8_off', 'make', '\u041f\u0440\u0438\u0432\u0435\u0442', encoding='koi8-r')
    add('refused_version', 'make', 'abc', version=41)
    add('refused_mask', 'make', 'abc', mask=8, micro=False)
    add('refused_kanji', 'make', 'abc', mode='kanji')
    add('refused_hanzi_seq', 'make_sequence', 'abc', mode='hanzi', symbol_count=2)
    add('refused_mode', 'make', 'abc', mode='numeric')
    return A


def run_call(c):
    import segno
    if c['api'] == 'render':       # make + save: the result is the document
        kw = c['kw']
        qr = segno.make(symobs.dec_content(c['content']), **kw['make'])
        if kw['kind'] == 'iterv':      # the verbose module-type iteration as the document
            return repr([bytes(min(x, 255) & 255 for x in row) + bytes((x >> 8) & 255 for x in row) for row in qr.matrix_iter(verbose=True, border=1)]).encode()
        buf = io.BytesIO() if kw['kind'] in BINARY else io.StringIO()
        save = {k: (tuple(v) if isinstance(v, list) else v) for k, v in kw['save'].items()}
        qr.save(buf, kind=kw['kind'], **save)
        return buf.getvalue()
    fn = getattr(segno, c['api'])
    return fn(symobs.dec_content(c['content']), **c['kw'])


def call_digest(c):
    try:
        return result_digest(run_call(c))
    except Exception as e:  # noqa
        return exc_digest(e)


def fresh_reference(name_and_call):
    """digest of the call's result in a fresh interpreter (no history at all)"""
    name, c = name_and_call
    code = ('import sys, json; sys.path.insert(0, %r); sys.path.insert(0, %r); from harness import common; common.use_repo(); '
            'from harness import props_purity as P; print("DIGEST", P.call_digest(json.loads(sys.stdin.read())))') % (common.VERIF, common.REPO)
    env = dict(os.environ, VERIF_REPO=common.REPO, PYTHONHASHSEED='0')
    p = subprocess.run([sys.executable, '-c', code], input=json.dumps(c).encode(), capture_output=True, env=env, timeout=300)
    out = p.stdout.decode()
    if 'DIGEST ' not in out:
        raise common.MachineryError(f'reference run of {name} failed: {p.stderr.decode()[-500:]}')
    return name, out.split('DIGEST ', 1)[1].strip()


KINDS = ('svg', 'png', 'eps', 'pdf', 'txt', 'ans', 'pbm', 'pam', 'ppm', 'tex', 'xbm', 'xpm')
BINARY = {'png', 'pbm', 'pam', 'ppm', 'pdf', 'svg'}


def args_digest(c):
    return sha((repr(c['content']), repr(sorted(c['kw'].items(), key=repr))))


class Log:
    def __init__(self, ref, names):
        self.steps = []
        self.returned = []         # live result objects (symbols or sequences), in order
        self.ref = {n: ref[n] for n in names}
        self.tables0 = tables_digest()

    def step(self, thread, what, name, c, before, result):
        self.steps.append({'thread': thread, 'what': what, 'call': name, 'tables': tables_digest(),
                           'symbols': [result_digest(x) if not isinstance(x, str) else x for x in self.returned],
                           'args_before': before, 'args_after': args_digest(c) if c else before, 'result': result})

    def obs(self, what):
        return {'steps': self.steps, 'ref': self.ref, 'tables0': self.tables0, '_what': what}


def do_call(log, thread, name, c, live_content_kw=None):
    """executes one call; content / kw objects are created once and digested before and after (argument objects must not be modified)"""
    import segno
    content = symobs.dec_content(c['content'])
    kw = dict(c['kw'])
    before = sha((repr(content), repr(sorted(kw.items(), key=repr))))
    try:
        r = getattr(segno, c['api'])(content, **kw) if c['api'] != 'render' else run_call(c)
        d = result_digest(r)
    except Exception as e:  # noqa
        r, d = None, exc_digest(e)
    after = sha((repr(content), repr(sorted(kw.items(), key=repr))))
    log.steps.append({'thread': thread, 'what': 'return', 'call': name, 'tables': tables_digest(),
                      'symbols': [result_digest(x) for x in log.returned], 'args_before': before, 'args_after': after, 'result': d})
    if r is not None:
        log.returned.append(r)
    else:
        log.returned.append(_Raised(d))
    return r


class _Raised(tuple):
    """placeholder in the list of returned results for a call that raised"""
    def __new__(cls, d):
        return super().__new__(cls, (d,))


_orig_result_digest = result_digest


def result_digest(r):  # noqa: F811
    if isinstance(r, _Raised):
        return r[0]
    if isinstance(r, (bytes, str)):
        from .props_routes import _TS
        b = r if isinstance(r, bytes) else r.encode('utf-8')
        for rx, rep in _TS:
            b = rx.sub(rep, b)
        return sha(b)
    return _orig_result_digest(r)


def use_symbol(log, thread, r, name):
    """serialises / iterates a returned symbol; must not change it (checked through the digests of the next step)"""
    import segno
    if isinstance(r, (bytes, str)):
        return
    qrs = list(r) if isinstance(r, tuple) and not hasattr(r, 'matrix') else [r]
    for qr in qrs[:2]:
        for kind in KINDS:
            buf = io.BytesIO() if kind in BINARY else io.StringIO()
            kw = {'dark': 'darkblue', 'finder_dark': 'red'} if kind in ('png', 'svg', 'ppm') else {}
            qr.save(buf, kind=kind, **kw)
            # the corner cases of the options every serialiser shares: no quiet zone, scale 1 / 2 (an iterator that hands out the
            # symbol's own rows instead of copies shows exactly there), and the per-kind variants
            for opt in (({'border': 0}, {'border': 0, 'scale': 2}, {'border': 1, 'scale': 1}) if len(qr.matrix) <= 45 else ({'border': 0},)):
                if kind in ('txt', 'ans') and 'scale' in opt:
                    opt = {k: v for k, v in opt.items() if k != 'scale'}
                buf = io.BytesIO() if kind in BINARY else io.StringIO()
                qr.save(buf, kind=kind, **opt)
            if kind == 'pbm':
                qr.save(io.BytesIO(), kind='pbm', plain=True, border=0)
            if kind == 'svg':
                qr.save(io.BytesIO(), kind='svg', border=0, scale=1.5, draw_transparent=True, light=None)
        for sc, bo in ((2, 1), (1, 0), (1, None), (3, 0)):
            for row in qr.matrix_iter(scale=sc, border=bo):
                if isinstance(row, (bytearray, list)):
                    row[:] = row[::-1]          # a consumer may do with the rows what it likes: they must be copies
        list(qr.matrix_iter(verbose=True))
        list(qr.matrix_iter(verbose=True, border=0, scale=1))
        qr.svg_inline(scale=2)
        qr.png_data_uri(scale=1)
        out = io.StringIO()
        qr.terminal(out=out, compact=True)
    log.steps.append({'thread': thread, 'what': 'save', 'call': name, 'tables': tables_digest(), 'symbols': [result_digest(x) for x in log.returned],
                      'args_before': '', 'args_after': '', 'result': 'none'})


def reencode(log, thread, r, name, c):
    """explicit version / level / mask of the automatic choice, boosting off, must reproduce the identical matrix"""
    import segno
    if not hasattr(r, 'matrix') or c['api'] == 'make_sequence':
        return
    kw = dict(c['kw'])
    kw.update({'version': r.version, 'mask': r.mask, 'boost_error': False})
    if r.error is not None:
        kw['error'] = r.error
    else:
        kw.pop('error', None)
    if isinstance(r.version, str):
        kw.pop('micro', None)
        if c['kw'].get('micro') is False:
            return
    try:
        d = result_digest(getattr(segno, c['api'])(symobs.dec_content(c['content']), **kw))
    except Exception as e:  # noqa
        d = exc_digest(e)
    log.steps.append({'thread': thread, 'what': 'reencode', 'call': name, 'tables': tables_digest(), 'symbols': [result_digest(x) for x in log.returned],
                      'args_before': '', 'args_after': '', 'result': d})


# ------------------------------------------------------------------ sequential histories
def history_obs(task):
    """one history (list of call names) executed in this (freshly forked) process"""
    names, A, ref, extra = task
    common.use_repo()
    log = Log(ref, set(names))
    results = []
    for i, n in enumerate(names):
        r = do_call(log, 't1', n, A[n])
        results.append(r)
        if extra and r is not None and i == 0:
            use_symbol(log, 't1', r, n)
    if extra:
        for n, r in zip(names, results):
            if r is not None:
                reencode(log, 't1', r, n, A[n])
    # a final step so that the digests of every returned symbol are looked at once more
    log.steps.append({'thread': 't1', 'what': 'run', 'call': names[-1], 'tables': tables_digest(), 'symbols': [result_digest(x) for x in log.returned],
                      'args_before': '', 'args_after': '', 'result': 'none'})
    o = log.obs('history ' + ' -> '.join(names))
    o['_task'] = {'type': 'history', 'names': names, 'extra': extra}
    return o


def soak_obs(task):
    """the same call n times in this (freshly forked) process; logged: the first two calls, the last one and every call whose result
    differs from the reference (so the trace stays small and every deviating step is judged by TLC)"""
    name, A, ref, n = task
    common.use_repo()
    log = Log(ref, {name})
    for i in range(n):
        do_call(log, 't1', name, A[name])
        st = log.steps[-1]
        if (i < 2 or i == n - 1 or st['result'] != ref.get(name)) and len(log.steps) <= 40:
            continue                  # the step and its result stay in the log (the result is digested again at every later logged step)
        log.steps.pop()
        log.returned.pop()
    o = log.obs(f'soak: {name} x {n}')
    o['_task'] = {'type': 'soak', 'name': name, 'n': n}
    return o


# ------------------------------------------------------------------ thread schedules (deterministic baton scheduler)
class Baton:
    """Runs threads one at a time; a thread hands over after its quota of traced line events inside segno."""

    def __init__(self, plan, nthreads):
        self.plan = plan                  # list of [thread index, number of line events]
        self.pos = 0
        self.cv = threading.Condition()
        self.finished = [False] * nthreads
        self.used = 0
        self.handover_log = []

    def current(self):
        while self.pos < len(self.plan) and self.finished[self.plan[self.pos][0]]:
            self.pos += 1
            self.used = 0
        if self.pos < len(self.plan):
            return self.plan[self.pos][0]
        for i, f in enumerate(self.finished):     # plan exhausted: run the remaining threads one after the other
            if not f:
                return i
        return None

    def wait_turn(self, i):
        with self.cv:
            while self.current() != i:
                self.cv.wait(timeout=60)

    def tick(self, i):
        """called by thread i for every traced line event"""
        with self.cv:
            if self.pos < len(self.plan) and self.plan[self.pos][0] == i:
                self.used += 1
                if self.used >= self.plan[self.pos][1]:
                    self.pos += 1
                    self.used = 0
                    self.cv.notify_all()
            handover = self.current() != i
        if handover:
            self.wait_turn(i)

    def finish(self, i):
        with self.cv:
            self.finished[i] = True
            if self.pos < len(self.plan) and self.plan[self.pos][0] == i:
                self.pos += 1
                self.used = 0
            self.cv.notify_all()


def count_events(c):
    """number of line events inside segno of one call (dry run)"""
    prefix = os.path.join(os.path.realpath(common.REPO), 'segno')
    n = [0]

    def tracer(frame, event, arg):
        if not frame.f_code.co_filename.startswith(prefix):
            return None
        if event == 'line':
            n[0] += 1
        return tracer
    sys.settrace(tracer)
    try:
        try:
            run_call(c)
        except Exception:  # noqa
            pass
    finally:
        sys.settrace(None)
    return n[0]


def function_entry_events(c):
    """line-event index at which each function of segno is entered during one call (first two entries per function)"""
    prefix = os.path.join(os.path.realpath(common.REPO), 'segno')
    n = [0]
    seen = {}
    points = []

    def tracer(frame, event, arg):
        if not frame.f_code.co_filename.startswith(prefix):
            return None
        if event == 'line':
            n[0] += 1
        elif event == 'call':
            k = frame.f_code.co_name
            seen[k] = seen.get(k, 0) + 1
            if seen[k] <= 2:
                points.append(n[0])
        return tracer
    sys.settrace(tracer)
    try:
        try:
            run_call(c)
        except Exception:  # noqa
            pass
    finally:
        sys.settrace(None)
    return sorted(set(points)), n[0]


def schedule_obs(task):
    """two (or more) threads execute one call each under the plan; returns the log"""
    names, A, ref, plan, what = task[:5]
    after = list(task[5]) if len(task) > 5 else []     # calls made sequentially after all threads have finished (what did the race leave behind?)
    common.use_repo()
    log = Log(ref, set(names) | set(after))
    prefix = os.path.join(os.path.realpath(common.REPO), 'segno')
    baton = Baton(plan, len(names))
    lock = threading.Lock()
    results = [None] * len(names)

    def worker(i):
        def tracer(frame, event, arg):
            if not frame.f_code.co_filename.startswith(prefix):
                return None
            if event == 'line':
                baton.tick(i)
            return tracer
        baton.wait_turn(i)
        c = A[names[i]]
        content = symobs.dec_content(c['content'])
        kw = dict(c['kw'])
        before = sha((repr(content), repr(sorted(kw.items(), key=repr))))
        import segno
        sys.settrace(tracer)
        try:
            try:
                r = getattr(segno, c['api'])(content, **kw)
                d = result_digest(r)
            except Exception as e:  # noqa
                r, d = None, exc_digest(e)
        finally:
            sys.settrace(None)
        after = sha((repr(content), repr(sorted(kw.items(), key=repr))))
        with lock:
            log.steps.append({'thread': f't{i + 1}', 'what': 'return', 'call': names[i], 'tables': tables_digest(),
                              'symbols': [result_digest(x) for x in log.returned], 'args_before': before, 'args_after': after, 'result': d})
            log.returned.append(r if r is not None else _Raised(d))
        results[i] = r
        baton.finish(i)
    threads = [threading.Thread(target=worker, args=(i,)) for i in range(len(names))]
    for t in threads:
        t.start()
    for t in threads:
        t.join(timeout=300)
    if any(t.is_alive() for t in threads):
        raise common.MachineryError('scheduler deadlock in ' + what)
    for n in after:
        do_call(log, 't1', n, A[n])
    log.steps.append({'thread': 't1', 'what': 'run', 'call': names[0], 'tables': tables_digest(), 'symbols': [result_digest(x) for x in log.returned],
                      'args_before': '', 'args_after': '', 'result': 'none'})
    o = log.obs(what)
    o['_task'] = {'type': 'schedule', 'names': names, 'plan': plan, 'what': what, 'after': after}
    return o


def plan_from_tlc(schedule, events):
    """TLC schedule (sequence of <<thread, stage>>) -> plan of [thread index, number of line events]: the stages of a call are
    mapped proportionally onto its line events"""
    nst = 21
    tix = {}
    plan = []
    for t, what in schedule:
        if t not in tix:
            tix[t] = len(tix)
        i = tix[t]
        if what.startswith('call:'):
            continue
        q = max(1, events[i] // nst)
        if plan and plan[-1][0] == i:
            plan[-1][1] += q
        else:
            plan.append([i, q])
    return plan, tix


def free_running_obs(task):
    """threads run freely with a very small switch interval (thorough tier)"""
    names, A, ref, reps, what = task
    common.use_repo()
    log = Log(ref, set(names))
    old = sys.getswitchinterval()
    sys.setswitchinterval(1e-6)
    lock = threading.Lock()
    barrier = threading.Barrier(len(names))

    def worker(i):
        for _ in range(reps):
            barrier.wait()
            c = A[names[i]]
            try:
                r = run_call(c)
                d = result_digest(r)
            except Exception as e:  # noqa
                r, d = None, exc_digest(e)
            with lock:
                log.steps.append({'thread': f't{i + 1}', 'what': 'return_untracked', 'call': names[i], 'tables': 'skipped', 'symbols': [], 'args_before': '',
                                  'args_after': '', 'result': d})
    ts = [threading.Thread(target=worker, args=(i,)) for i in range(len(names))]
    for t in ts:
        t.start()
    for t in ts:
        t.join()
    sys.setswitchinterval(old)
    td = tables_digest()
    for s in log.steps:
        s['tables'] = td
    log.returned = []
    return log.obs(what)


# ------------------------------------------------------------------ the check
def apalache_part(rep, tier):
    """unbounded safety of the ownership discipline: spec/apalache/PurityInd.tla (Purity.tla flattened and annotated) - Init => IndInv,
    IndInv /\\ Next => IndInv' and IndInv /\\ Next => StepSafe (library object and handed-out symbols never written, writes only to
    objects the stepping thread owns), with the shared-scratch deviation as negative control"""
    import shutil
    import tempfile
    import time
    runs = [('base', ['--init=Init', '--inv=IndInv', '--length=0'], 'NoError'),
            ('negative control (Dev_SharedScratch)', ['--init=IndInit', '--next=NextDev', '--inv=IndInv', '--length=1'], 'Error')]
    if tier == 'thorough':
        runs += [('inductive step', ['--init=IndInit', '--inv=IndInv', '--length=1'], 'NoError'),
                 ('invariant implies the action properties', ['--init=IndInit', '--inv=StepSafe', '--length=1'], 'NoError'),
                 ('negative control of the action properties', ['--init=IndInit', '--next=NextDev', '--inv=StepSafe', '--length=1'], 'Error')]
    res = []
    for name, args, want in runs:
        out_dir = tempfile.mkdtemp(prefix='apalache_', dir=common.workdir('C15'))
        t0 = time.time()
        try:
            p = subprocess.run(['apalache-mc', 'check'] + args + ['--out-dir=' + out_dir, 'PurityInd.tla'], cwd=os.path.join(common.SPEC, 'apalache'),
                               capture_output=True, timeout=3000, preexec_fn=common._unlimit_memory)
        except subprocess.TimeoutExpired:
            raise common.MachineryError(f'Apalache timed out on {name}')
        finally:
            shutil.rmtree(out_dir, ignore_errors=True)
        out = p.stdout.decode('utf-8', 'replace')
        got = 'NoError' if 'The outcome is: NoError' in out else ('Error' if 'The outcome is: Error' in out else 'other')
        res.append({'run': name, 'args': ' '.join(args), 'outcome': got, 'wall_s': round(time.time() - t0, 1)})
        if got == 'other':
            raise common.MachineryError(f'Apalache: {name}: unexpected outcome\n' + out[-1500:])
        if got != want:
            if want == 'Error':
                raise common.MachineryError(f'Apalache negative control did not fail: {name}')
            raise common.MachineryError(f'Apalache: the inductive argument does not go through ({name}); this is a defect of the specification, not of segno\n' + out[-1500:])
    rep.notes['apalache_inductive_invariant'] = res


def AFTER(nm):
    """calls made after the threads of a schedule have finished: both calls again, and a larger, sparsely filled symbol"""
    return list(nm) + ['sparse_v22']


def run_c15(rep, tier):
    seed_ = common.seed()
    r = gen.rng(seed_, 'C15')
    # (a) design runs
    for cfg, what in (('Purity_design.cfg', 'all interleavings of 2 threads x 3 calls over the pipeline stages with the ownership model'),):
        out, st = common.run_tlc('Purity', cfg=cfg, workers=common.NCPU, timeout=1500, xmx='8g')
        rep.add_design('Purity', cfg, out, st, what)
    out, st = common.run_tlc('Purity', cfg='Purity_dev.cfg', workers=4, timeout=600)
    if 'Invariant LibUntouched is violated' not in out and 'is violated' not in out:
        raise common.MachineryError('negative control failed: TLC did not find the violation of the shared-scratch deviation')
    rep.notes['negative_control'] = 'with Dev_SharedScratch enabled TLC reports a violated invariant (as it must)'
    out, st = common.run_tlc('Purity', cfg='Purity_sched.cfg', workers=8, timeout=900, xmx='8g', coverage=True)
    rep.add_design('Purity', 'Purity_sched.cfg', out, st, 'all schedules of two concurrent calls with at most 2 context switches (export)')
    schedules = common.parse_vectors(out)
    rep.notes['schedules_exported_by_tlc'] = len(schedules)
    apalache_part(rep, tier)
    # (b) references in fresh interpreters
    A = alphabet(seed_)
    with ThreadPoolExecutor(max_workers=common.NCPU) as ex:
        ref = dict(ex.map(fresh_reference, sorted(A.items())))
    rep.notes['alphabet_size'] = len(A)
    names = sorted(A)
    # (c) sequential histories: all ordered pairs (thorough: plus triples sample), each in a freshly forked process
    small = [n for n in names if n not in ('v20', 'v20b', 'v10', 'v10b') and not n.startswith('big_') and not n.startswith('sparse_') and not n.startswith('drop')]
    # quick tier: all ordered pairs of the core alphabet; the later additions (value-class variants of one call) are paired with
    # themselves, with their neighbours (same prefix) and with 10 seeded partners each
    VARIANT = ('eci_', 'svg_alpha', 'png_alpha', 'pdf_alpha', 'eps_alpha', 'ppm_alpha', 'svg_scale', 'png_dark_alpha', 'png_light_alpha', 'png_both', 'svg_dark_none', 'content_')
    core = [n for n in small if not n.startswith(VARIANT)]
    partners = {n: set(r.sample(core, 10)) for n in small if n.startswith(VARIANT)}
    tasks = []
    for a in names:
        for b in names:
            if tier == 'quick':
                if (a not in small or b not in small) and (a[:3] != b[:3]):
                    continue
                if (a in partners or b in partners) and a[:6] != b[:6] and b not in partners.get(a, ()) and a not in partners.get(b, ()):
                    continue
            tasks.append(([a, b], A, ref, a == b or r.random() < 0.05))
    for _ in range(60 if tier == 'quick' else 2000):
        k = r.randint(3, 6)
        tasks.append(([r.choice(small) for _ in range(k)], A, ref, True))
    # (c2) the extremes of the version range in both orders, and equal-comparing arguments in both orders
    bigs = [n for n in names if n.startswith('big_')]
    for a in bigs:
        for b in bigs:
            if a != b and (a.startswith('big_v') != b.startswith('big_v') or tier == 'thorough'):
                tasks.append(([a, b], A, ref, False))
    drops = [n for n in names if n.startswith('drop')]
    for a in drops:
        for b in drops:
            if a != b:
                tasks.append(([a, b], A, ref, False))
    for _ in range(20 if tier == 'quick' else 300):
        tasks.append(([r.choice(drops) for _ in range(r.randint(3, 6))], A, ref, False))
    # (c3) soak: the same call 160 (thorough: 600) times in one process - nothing is used up, nothing accumulates
    soak_tasks = [(n, A, ref, (160 if tier == 'quick' else 600) if not n.startswith('drop') else 12) for n in names
                  if A[n]['api'] == 'render' or n in ('hello_auto', 'm1', 'kanji', 'parts_mixed', 'seq_sc3')]
    # (d) thread schedules from TLC, mapped onto line events, on pairs of calls (same size symbols first)
    pairs = [('v5', 'v5b'), ('hello_L', 'hello_noboost_L'), ('hello_mask0', 'hello_mask3'), ('byte17', 'u17_utf8_eci'), ('m3', 'm4q'), ('digits', 'digits_qr'),
             ('v10', 'v10b'), ('parts_user_alice', 'user'), ('kanji', 'hanzi'), ('hello_M', 'v5'), ('seq_sc3', 'seq_sc3_q'), ('sparse_v12a', 'sparse_v12b')]
    common.use_repo()
    # dry runs (line-event counts, function entry points) happen in forked helper processes: the parent must stay free of any
    # call history, otherwise the workers forked from it would inherit warm caches and never see a first use
    ctx0 = mp.get_context('fork')
    with ctx0.Pool(common.NCPU, maxtasksperchild=1) as pool0:
        need = sorted({x for p in pairs for x in p})
        evcount = dict(zip(need, common.pmap(pool0, count_events, [A[n] for n in need])))
        entry_info = dict(zip(need, common.pmap(pool0, function_entry_events, [A[n] for n in need])))
    nsched = 150 if tier == 'quick' else 3000
    step = max(1, len(schedules) // nsched)
    sched_tasks = []
    for k, sv in enumerate(schedules[::step][:nsched]):
        p = pairs[k % len(pairs)]
        # TLC's calls "A" / "B" are instantiated with the pair; thread order as in the schedule
        tl = []
        for t, what in sv['schedule']:
            if t not in tl:
                tl.append(t)
        nm = [p[0], p[1]] if len(tl) > 1 else [p[0]]
        if len(tl) < 2:
            continue
        plan, _ = plan_from_tlc(sv['schedule'], [evcount[nm[0]], evcount[nm[1]]])
        sched_tasks.append((nm, A, ref, plan, f'TLC schedule #{k * step} ({sv["switches"]} switches) on {nm}', AFTER(nm)))
    # (d2) single pre-emption sweep: thread 1 is paused at every function entry (+ a few lines) and at a grid of evenly spaced
    #      points, thread 2 runs to completion, thread 1 finishes (the one-switch schedules of the model at fine resolution)
    sweep_pairs = [('v5', 'v5b'), ('hello_L', 'hello_noboost_L'), ('m3', 'm4q'), ('v10', 'v10b'), ('sparse_v12a', 'sparse_v12b')] if tier == 'quick' else pairs
    grid = 48 if tier == 'quick' else 200
    for pa, pb in sweep_pairs:
        entries, total = entry_info[pa]
        pts = set(entries) | {e + 3 for e in entries} | {max(1, (i * total) // grid) for i in range(1, grid)}
        for pt in sorted(x for x in pts if 0 < x < total):
            sched_tasks.append(([pa, pb], A, ref, [[0, pt], [1, 10 ** 9], [0, 10 ** 9]], f'single pre-emption of {pa} after {pt} of {total} line events, then {pb}', AFTER([pa, pb])))
    # (e) seeded line-level pre-emption fuzzing
    nfuzz = 120 if tier == 'quick' else 3000
    for k in range(nfuzz):
        p = pairs[k % len(pairs)]
        plan = []
        total = evcount[p[0]] + evcount[p[1]]
        i = r.randint(0, 1)
        budget = 0
        while budget < total * 2:
            q = r.choice((1, 2, 3, 5, 8, 13, 40, 100, 400))
            plan.append([i, q])
            budget += q
            i = 1 - i
        sched_tasks.append(([p[0], p[1]], A, ref, plan, f'line-level fuzz #{k} on {list(p)}', AFTER(list(p))))
    rep.evaluations = len(tasks) + len(sched_tasks) + len(soak_tasks)
    ctx = mp.get_context('fork')
    with ctx.Pool(common.NCPU, maxtasksperchild=1) as pool:
        obs = common.pmap(pool, history_obs, tasks)
        obs += common.pmap(pool, soak_obs, soak_tasks)
        obs += common.pmap(pool, schedule_obs, sched_tasks)
        if tier == 'thorough':
            fr = [([p[0], p[1], p[0]], A, ref, 20, f'free running threads on {list(p)}') for p in pairs]
            obs += common.pmap(pool, free_running_obs, fr)
            rep.evaluations += len(fr)
    verdicts, st = common.validate_observations(rep.pid, 'Trace_Purity', obs, tag='purity', timeout=3000)
    rep.add_trace_stats(st, len(obs))
    for o in obs:
        v = verdicts[o['tid']]
        fails = sorted(c for (p, c) in v['fails'])
        rep.keys.add(o['_what'])
        rep.sample({'history': o['_what'], 'steps': len(o['steps']), 'first_steps': [{k: s[k] for k in ('thread', 'what', 'call', 'result')} for s in o['steps'][:3]],
                    'tlc_fails': fails})
        if fails:
            bad = [s for s in o['steps'] if s['what'] in ('return', 'return_untracked', 'reencode') and s['result'] != o['ref'].get(s['call'])]
            rep.violation({'kind': 'purity', 'module': 'props_purity', 'what': o['_what'], 'failing_clauses': fails, 'task': o.get('_task'),
                           'differing_steps': [{k: s[k] for k in ('thread', 'what', 'call', 'result')} for s in bad[:5]], 'ref': o['ref']},
                          f"{o['_what']}: fails {fails}")
    rep.exhaustive = False
    rep.notes['exhaustive_subspaces'] = [f'all ordered pairs of the small calls of the alphabet ({len(small)}^2) as sequential histories',
                                         'all schedules of two calls with at most 2 context switches: enumerated by TLC, a deterministic sample replayed']
    rep.trusted += ['SHA-256 digests of matrices / tables as projection of the abstract state', 'sys.settrace based baton scheduler (harness/props_purity.py)']
    rep.rule = ('references: every call of a 60-call alphabet (argument neighbours differing in one argument) in a fresh interpreter; sequential '
                'histories: ordered pairs and random longer histories, each in a freshly forked process, with save / iterate / re-encode '
                'steps; threads: TLC enumerates all schedules of two calls with <= 2 context switches over the pipeline stages, a sample is '
                'replayed with real threads under a deterministic line-event baton scheduler, plus seeded line-level pre-emption fuzzing; '
                'TLC validates every logged step (tables constant, returned symbols immutable, arguments unchanged, result = fresh result); '
                'distinct non-trivial = distinct histories / schedules')


def replay(pid, d):
    """re-executes the recorded history / schedule (in a freshly forked process) and validates its log"""
    common.use_repo()
    t = d.get('task')
    if not t:
        print('no task recorded:', d.get('what'))
        return 1
    A = alphabet(d.get('seed', 0))
    with ThreadPoolExecutor(max_workers=4) as ex:
        ref = dict(ex.map(fresh_reference, [(n, A[n]) for n in sorted(set((t.get('names') or [t['name']]) + t.get('after', [])))]))
    ctx = mp.get_context('fork')
    with ctx.Pool(1, maxtasksperchild=1) as pool:
        if t['type'] == 'soak':
            o = pool.apply(soak_obs, ((t['name'], A, ref, t['n']),))
        elif t['type'] == 'history':
            o = pool.apply(history_obs, ((t['names'], A, ref, t.get('extra', True)),))
        else:
            o = pool.apply(schedule_obs, ((t['names'], A, ref, t['plan'], t['what'], t.get('after', [])),))
    verdicts, _ = common.validate_observations(pid + '_replay', 'Trace_Purity', [o], shards=1, tag='purity')
    v = verdicts[o['tid']]
    fails = sorted(c for (p, c) in v['fails'])
    print('history :', o['_what'])
    for s_ in o['steps']:
        if s_['what'] in ('return', 'reencode'):
            print('  ', s_['thread'], s_['what'], s_['call'], s_['result'], '(fresh interpreter: %s)' % o['ref'].get(s_['call']))
    print('verdict :', fails)
    if not fails:
        return 0
    print(f'VIOLATION property={pid} replay=(this file)')
    return 1


REGISTRY = {'C15': run_c15}
