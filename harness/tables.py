"""ISO tables exported from the TLA+ specification (spec -> harness), used only to aim input generators."""
import json
import os
from . import common

_T = None
MODES = ('numeric', 'alphanumeric', 'byte', 'kanji', 'hanzi')


def load(force=False):
    global _T
    if _T is not None and not force:
        return _T
    path = os.path.join(common.WORK, 'tables.json')
    src = [os.path.join(common.SPEC, f) for f in ('ISOTables.tla', 'GF256.tla', 'DumpTables.tla')]
    if force or not os.path.exists(path) or any(os.path.getmtime(s) > os.path.getmtime(path) for s in src):
        out, st = common.run_tlc('DumpTables', workers=1, timeout=600)
        vs = common.parse_vectors(out)
        if not common.tlc_ok(out, st) or len(vs) < 1 or not vs[-1].get('selfcheck'):
            raise common.MachineryError('DumpTables failed or self check of the table modules is false:\n' + out[-2000:])
        os.makedirs(common.WORK, exist_ok=True)
        tmp = path + '.%d.tmp' % os.getpid()
        with open(tmp, 'w') as f:
            json.dump(vs[-1], f)
        os.replace(tmp, path)
    with open(path) as f:
        _T = json.load(f)
    return _T


def _k(v):
    return v + 3  # versions -3..40 -> index 0..43


def cap(v, e):
    return load()['cap'][_k(v)][e]


def has_level(v, e):
    return cap(v, e) >= 0


def levels_of(v):
    return [e for e in ('-', 'L', 'M', 'Q', 'H') if has_level(v, e)]


def ccbits(v, mode):
    return load()['ccbits'][_k(v)][mode]


def modebits(v):
    return load()['modebits'][_k(v)]


def termlen(v):
    return load()['termlen'][_k(v)]


def datamap(v):
    """rows of 0/1: 1 where the module is a data module (versions M1..M4, 1..5, 7)"""
    return load()['datamap'][(-3, -2, -1, 0, 1, 2, 3, 4, 5, 7).index(v)]


def layout(v, e):
    return load()['layout'][_k(v)][e]


def datalen(mode, n):
    if mode == 'numeric':
        return 10 * (n // 3) + (0, 4, 7)[n % 3]
    if mode == 'alphanumeric':
        return 11 * (n // 2) + 6 * (n % 2)
    if mode == 'byte':
        return 8 * n
    return 13 * n


def overhead(v, mode):
    return modebits(v) + (4 if mode == 'hanzi' else 0) + ccbits(v, mode)


def seg_bits(v, mode, n):
    return overhead(v, mode) + datalen(mode, n)


def max_chars(v, e, mode, extra=0):
    """Largest character count of a single segment in `mode` that fits version v at level e (-1: mode unavailable)."""
    if ccbits(v, mode) < 0 or cap(v, e) < 0:
        return -1
    c = cap(v, e) - extra
    n = 0
    # count is also limited by the character count indicator
    lim = (1 << ccbits(v, mode)) - 1
    lo, hi = 0, lim
    while lo < hi:
        mid = (lo + hi + 1) // 2
        if seg_bits(v, mode, mid) <= c:
            lo = mid
        else:
            hi = mid - 1
    return lo if seg_bits(v, mode, lo) <= c else -1


def version_name(v):
    return v if v >= 1 else ('M1', 'M2', 'M3', 'M4')[v + 3]
