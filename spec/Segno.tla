-------------------------------- MODULE Segno --------------------------------
(***************************************************************************)
(* segno.make() as ONE state machine: the decision stages of Decide.tla    *)
(* (Normalize, Prepare, FindVersion, LevelCheck, Boost, Return) followed   *)
(* by the data pipeline of encoder._encode() on CONCRETE content bytes,    *)
(* one action per function of the implementation:                          *)
(*                                                                         *)
(*   WriteSegments   write_segment            (mode / count indicators)    *)
(*   Terminate       write_terminator         (ISO 7.4.9)                  *)
(*   PadBits         write_padding_bits       (ISO 7.4.10)                 *)
(*   PadCodewords    write_pad_codewords                                   *)
(*   FinalMessage    make_blocks, make_final_message (RS, interleaving)    *)
(*   ChooseMask      find_and_apply_best_mask (ISO 7.8.3)                  *)
(*   BuildSymbol     make_matrix, add_finder_patterns, add_alignment_...,  *)
(*                   add_codewords, add_format_info, add_version_info      *)
(*                                                                         *)
(* The properties C01, C02, C03, C06, C13 are invariants of the returned   *)
(* state, evaluated with the reference DECODER of Codec.tla, which was     *)
(* written independently of the encoder operators used by the actions.     *)
(* Dev_PadBitsWhenAligned is the named deviation of the open finding       *)
(* KF-C13-1 as an alternative PadBits action: with AllowDevPad TLC finds   *)
(* C13 violated (negative control), and the implementation's exact matrix  *)
(* is predicted by the behaviours that take the deviation.                 *)
(* Every returned state is exported with its matrix (spec -> code: the     *)
(* implementation must return exactly one of the predicted matrices).      *)
(***************************************************************************)
EXTENDS Decide, SymCheck

CONSTANTS Alphabet,      \* byte values the contents are built from
          MaxLen,        \* maximal content length
          ReqVersions,   \* requested versions (NoVersion = none)
          ReqLevels,     \* requested levels ("-" = none)
          ReqMasks,      \* requested masks (-1 = automatic)
          ReqMicro,      \* subset of {"none", "yes", "no"}
          ReqBoost,      \* subset of BOOLEAN
          AllowDevPad    \* enable the deviation action Dev_PadBitsWhenAligned

VARIABLES content, maskreq, stage, bits, endp, fbits, usedmask, M, dev
svars == <<content, maskreq, stage, bits, endp, fbits, usedmask, M, dev>>
allvars == <<vars, svars>>

Contents == UNION {[1..k -> Alphabet] : k \in 1..MaxLen}
SInit == /\ content \in Contents /\ maskreq \in ReqMasks
         /\ stage = "decide" /\ bits = <<>> /\ endp = 0 /\ fbits = <<>> /\ usedmask = -1 /\ M = <<>> /\ dev = FALSE
         /\ \E vr \in ReqVersions : \E er \in ReqLevels : \E mi \in ReqMicro : \E bo \in ReqBoost :
              a = Args(ClassOfBytes(content, FALSE, FALSE), Len(content), "none", vr, er, mi, FALSE, bo)
         /\ pc = "start" /\ mode = "none" /\ ver = NoVersion /\ lvl = "?" /\ out = [st |-> "?"]

DecideStep == /\ stage = "decide" /\ (Normalize \/ Prepare \/ FindVersion \/ LevelCheck \/ Boost \/ Return) /\ UNCHANGED svars
\* normalize_mask() runs after the version is known
MaskCheck == /\ stage = "decide" /\ pc = "done" /\ out.st = "ok"
             /\ IF maskreq >= NumMasks(out.version) THEN stage' = "refused" ELSE stage' = "segments"
             /\ UNCHANGED <<vars, content, maskreq, bits, endp, fbits, usedmask, M, dev>>
WriteSegments == /\ stage = "segments" /\ stage' = "terminate"
                 /\ bits' = EncodeSeg(out.version, [kind |-> "data", mode |-> out.mode, bytes |-> content])
                 /\ endp' = Len(bits')
                 /\ UNCHANGED <<vars, content, maskreq, fbits, usedmask, M, dev>>
CapNow == Cap(out.version, out.error)
Terminate == /\ stage = "terminate" /\ stage' = "padbits"
             /\ bits' = bits \o Zeros(Min2(CapNow - Len(bits), TermLen(out.version)))
             /\ UNCHANGED <<vars, content, maskreq, endp, fbits, usedmask, M, dev>>
PadBits == /\ stage = "padbits" /\ stage' = "padcw"
           /\ bits' = bits \o Zeros(IF Len(bits) % 8 = 0 \/ Len(bits) = CapNow THEN 0 ELSE Min2(8 - (Len(bits) % 8), CapNow - Len(bits)))
           /\ UNCHANGED <<vars, content, maskreq, endp, fbits, usedmask, M, dev>>
\* KF-C13-1: write_padding_bits appends 8 zero bits when the terminated stream is already aligned (not for M1 / M3)
Dev_PadBitsWhenAligned ==
           /\ AllowDevPad /\ stage = "padbits" /\ stage' = "padcw" /\ ~HalfCW(out.version)
           /\ Len(bits) % 8 = 0 /\ Len(bits) < CapNow
           /\ bits' = bits \o Zeros(Min2(8, CapNow - Len(bits))) /\ dev' = TRUE
           /\ UNCHANGED <<vars, content, maskreq, endp, fbits, usedmask, M>>
PadCodewords == /\ stage = "padcw" /\ stage' = "final"
                /\ LET full == (CapNow - Len(bits)) \div 8
                       pads == FoldLeft(LAMBDA x, i : x \o PadCW(i), <<>>, Iota(full)) IN
                   bits' = bits \o pads \o Zeros(CapNow - Len(bits) - 8 * full)
                /\ UNCHANGED <<vars, content, maskreq, endp, fbits, usedmask, M, dev>>
FinalMessage == /\ stage = "final" /\ stage' = "mask"
                /\ fbits' = FinalBits(out.version, out.error, bits)
                /\ UNCHANGED <<vars, content, maskreq, bits, endp, usedmask, M, dev>>
ChooseMask == /\ stage = "mask" /\ stage' = "build"
              /\ usedmask' = IF maskreq >= 0 THEN maskreq
                             ELSE BestOf(MaskScores(BuildMatrix(out.version, out.error, 0, fbits), out.version, 0, N3Iso), IsMicro(out.version))
              /\ UNCHANGED <<vars, content, maskreq, bits, endp, fbits, M, dev>>
BuildSymbol == /\ stage = "build" /\ stage' = "returned"
               /\ M' = BuildMatrix(out.version, out.error, usedmask, fbits)
               /\ UNCHANGED <<vars, content, maskreq, bits, endp, fbits, usedmask, dev>>
SNext == DecideStep \/ MaskCheck \/ WriteSegments \/ Terminate \/ PadBits \/ Dev_PadBitsWhenAligned \/ PadCodewords \/ FinalMessage
         \/ ChooseMask \/ BuildSymbol
SSpec == SInit /\ [][SNext]_allvars

(* ------------------------------------------------------------------ properties of the returned symbol *)
Returned == stage = "returned"
Dec == Decode(M)
C01_RoundTrip == Returned => /\ Dec.fmt.valid /\ Dec.fmt2_ok /\ Dec.size_ok /\ Dec.d.rs_ok /\ Dec.d.parse = "end"
                             /\ Dec.d.payload = content
                             /\ \A i \in 1..Len(Dec.d.segs) : Dec.d.segs[i].kind = "data"
C02_Geometry == Returned => /\ Len(M) = Size(out.version) /\ PatternFails(M, out.version) = {}
                            /\ Dec.v = out.version /\ Dec.fmt.level = out.error /\ Dec.fmt.mask = usedmask /\ Dec.ver_ok
                            /\ Dec.f1 = FormatWordFor(out.version, out.error, usedmask)
C03_Blocks == Returned => /\ Dec.d.nraw = DataModules(out.version) /\ Dec.d.rs_ok
                          /\ Dec.d.lay = Layout(out.version, out.error)
C06_Mask == Returned => IF maskreq >= 0 THEN usedmask = maskreq
                        ELSE usedmask = BestOf(MaskScores(M, out.version, usedmask, N3Iso), IsMicro(out.version))
C07_ModeInSymbol == Returned => Len(DataSegs(Dec.d.segs)) = 1 /\ DataSegs(Dec.d.segs)[1].mode = out.mode /\ Dec.d.endp = endp
C13_Tail == Returned /\ ~dev => /\ SubSeq(Dec.d.dbits, endp + 1, Len(Dec.d.dbits)) = IsoTail(out.version, CapNow, endp)
                                /\ Dec.d.rem_zero /\ Len(Dec.d.dbits) = CapNow
\* the deviation is exactly what the deviation operator of the trace specification recognises
Dev_Recognised == Returned /\ dev => SubSeq(Dec.d.dbits, endp + 1, Len(Dec.d.dbits)) = TailPadBitsWhenAligned(out.version, CapNow, endp)
\* negative control: with AllowDevPad this invariant is violated
C13_TailAlways == Returned => SubSeq(Dec.d.dbits, endp + 1, Len(Dec.d.dbits)) = IsoTail(out.version, CapNow, endp)
\* the reference encoder written as one operator agrees with the stepwise pipeline
EncoderAgrees == Returned /\ ~dev => EncodeSymbol(out.version, out.error, maskreq, <<[kind |-> "data", mode |-> out.mode, bytes |-> content]>>).M = M
SExport == (Returned \/ stage = "refused" \/ (pc = "done" /\ out.st # "ok")) =>
           PrintT(<<"VECTOR", ToJson([content |-> content, args |-> a, maskreq |-> maskreq, out |-> out, stage |-> stage, dev |-> dev,
                                      mask |-> usedmask, matrix |-> M])>>)
=============================================================================
