CONSTANTS
  MsgPool = {}
  ReqModesSA = {}
  ReqVersionsSA = {}
  ReqCountsSA = {}
  ReqLevelsSA = {}
  ReqEciSA = {}
  ReqBoostSA = {}
  AllowDevPadSA = TRUE
  AllowDevEstimate = TRUE
INIT TraceInit
NEXT TraceNext
CHECK_DEADLOCK FALSE
POSTCONDITION AllJudged
