---------------------------- MODULE Trace_Helpers ----------------------------
(* Trace validation for C16: every observation is one call of a make_*_data helper with the arguments (abstracted to sequences of
   code points) and the payload it returned; TLC evaluates the grammar clauses of Helpers.tla on it. *)
EXTENDS Helpers, Json, IOUtils, TLCExt

Obs == JsonDeserialize(IOEnv.TRACE_FILE)
N == Len(Obs)
VARIABLES tid, judged
TraceInit == tid \in 1..N /\ judged = FALSE /\ fields = <<>>
Verdict(o) ==
  LET fails == CASE o.helper = "wifi" -> WifiFails(o.a, o.payload)
                 [] o.helper = "mecard" -> MecardFails(o.a, o.payload)
                 [] o.helper = "vcard" -> VcardFails(o.a, o.payload)
                 [] o.helper = "geo" -> GeoFails(o.a, o.payload)
                 [] o.helper = "email" -> MailFails(o.a, o.payload)
                 [] o.helper = "epc" -> EpcFails(o.a, o.d)
  IN [tid |-> o.tid, fails |-> {<<"C16", c>> : c \in fails}, devs |-> {}, facts |-> [helper |-> o.helper]]
Judge == /\ ~judged /\ judged' = TRUE /\ UNCHANGED <<tid, fields>>
         /\ PrintT(<<"VERDICT", ToJson(Verdict(Obs[tid]))>>)
TraceNext == Judge
AllJudged == TLCGet("distinct") = 2 * N
=============================================================================
