"""Generic check pipeline: design run -> vectors -> drive implementation -> trace validation -> classification -> evidence."""
import json
import os
import sys
import time
from . import common, symobs


class Finding:
    def __init__(self, obs, clauses, devs, facts):
        self.obs, self.clauses, self.devs, self.facts = obs, sorted(clauses), sorted(devs), facts


def match_known(pid, clauses, devs, known):
    """An observation is a known finding only if all its failing clauses are listed in an open entry of this
    property and TLC found the entry's named deviation to explain it."""
    for k in known:
        if k.get('property') != pid or k.get('status') != 'open':
            continue
        if not set(clauses) <= set(k.get('clauses', [])):
            continue
        dev = k.get('deviation')
        if dev and dev not in devs:
            continue
        return k
    return None


def strip(o):
    return {k: v for k, v in o.items() if not k.startswith('_')}


class Report:
    """Collects what a check explored and decides the exit status."""

    def __init__(self, pid, tier):
        self.pid, self.tier = pid, tier
        self.t0 = time.time()
        self.states = 0
        self.transitions = 0
        self.design = []          # [{module, cfg, states, transitions, wall_s}]
        self.evaluations = 0
        self.validated = 0
        self.keys = set()         # distinct non-trivial cases
        self.samples = []
        self.violations = []      # (replay path, text)
        self.known_hits = {}      # known finding id -> count, example
        self.notes = {}
        self.assumptions = []
        self.trusted = ['TLC 1.8.0 and the CommunityModules Java overrides', 'harness projection (harness/*.py)']
        self.rule = ''
        self.exhaustive = None
        self.known = common.load_known_findings()
        self.wd = common.workdir(pid)
        for f in os.listdir(self.wd):
            if f.startswith('replay-'):
                os.remove(os.path.join(self.wd, f))
        self.extra = {}

    def add_design(self, module, cfg, out, st, what='', allowed_zero=()):
        if not common.tlc_ok(out, st):
            p = os.path.join(self.wd, f'design_{module}.out')
            with open(p, 'w') as f:
                f.write(out)
            raise common.MachineryError(f'design run {module}/{cfg} failed, see {p}\n' + out[-2500:])
        self.states += st['states']
        self.transitions += st['transitions']
        # per-action coverage (-coverage 1): an action of the model that was never taken means the property was never exercised
        import re
        actions = {}
        for m in re.finditer(r'^<(\w+) line \d+, col \d+ to line \d+, col \d+ of module (\w+)>: (\d+):(\d+)', out, re.M):
            actions[m.group(1)] = max(actions.get(m.group(1), 0), int(m.group(3)))
        never = sorted(a for a, n in actions.items() if n == 0 and a not in allowed_zero and not a.startswith('Dev_'))
        if never:
            raise common.MachineryError(f'design run {module}/{cfg}: actions never taken (vacuous model run): {never}')
        self.design.append({'module': module, 'cfg': cfg, 'states': st['states'], 'transitions': st['transitions'],
                            'wall_s': round(st['wall_s'], 1), 'what': what, 'distinct_states_per_action': actions})

    def add_trace_stats(self, st, n):
        self.states += st['states']
        self.transitions += st['transitions']
        self.validated += n

    def violation(self, payload, text):
        n = len(self.violations) + 1
        path = os.path.join(self.wd, f'replay-{n}.json')
        if n <= 200:
            with open(path, 'w') as f:
                json.dump({'property': self.pid, 'tier': self.tier, 'seed': common.seed(), **payload}, f, default=str)
        self.violations.append((path, text))

    def known_hit(self, k, example):
        e = self.known_hits.setdefault(k['id'], {'count': 0, 'example': example, 'entry': k})
        e['count'] += 1

    def sample(self, s, limit=6):
        if len(self.samples) < limit:
            self.samples.append(s)

    def finish(self):
        wall = time.time() - self.t0
        for k in self.known:
            if k.get('property') == self.pid and k.get('status') == 'open':
                hit = self.known_hits.get(k['id'])
                cnt = hit['count'] if hit else 0
                ex = f" e.g. {json.dumps(hit['example'], default=str)[:160]}" if hit else ''
                print(f"KNOWN-FINDING: property={self.pid} {k['id']} {k['what']} [observed {cnt}x in this run{ex}]")
        shown = 0
        for path, text in self.violations:
            if shown < 25:
                print(f'VIOLATION property={self.pid} replay={path}')
                print(f'  {text}')
            shown += 1
        if shown > 25:
            print(f'  ... {shown - 25} further violations not listed ({shown} in total)')
        cov = {'states': self.states, 'transitions': self.transitions,
               'traces_validated_against_impl': self.validated,
               'evaluations': self.evaluations, 'distinct_nontrivial': len(self.keys), 'rule': self.rule,
               'samples': self.samples or [{'note': 'no sample recorded'}],
               'design_runs': self.design, 'trusted_base': self.trusted,
               'known_findings_observed': {k: v['count'] for k, v in self.known_hits.items()},
               'violations_found': len(self.violations)}
        if self.exhaustive is not None:
            cov['exhaustive'] = self.exhaustive
        cov.update(self.extra)
        cov.update(self.notes)
        common.write_evidence(self.pid, self.tier, 'model_checking', cov, wall, len(self.violations), self.assumptions)
        print(f'{self.pid} {self.tier}: {self.evaluations} evaluations, {len(self.keys)} distinct non-trivial, '
              f'{self.validated} observations judged by TLC, {self.states} states, '
              f'{len(self.violations)} violations, {sum(v["count"] for v in self.known_hits.values())} known-finding hits, {wall:.0f}s')
        return 1 if self.violations else 0


def judge_symbols(rep, observations, pid_clauses, key_fn, sample_fn=None, timeout=3000):
    """Validate symbol observations with Trace_Sym and classify the failures of property rep.pid.

    pid_clauses: property tags whose failing clauses count for this property (usually {rep.pid})."""
    with_res = [o for o in observations if 'res' in o]
    verdicts, st = common.validate_observations(rep.pid, 'Trace_Sym', with_res, timeout=timeout)
    rep.add_trace_stats(st, len(with_res))
    results = []
    for o in with_res:
        v = verdicts[o['tid']]
        fails = [c for (p, c) in v['fails'] if p in pid_clauses]
        devs = v.get('devs', [])
        facts = v.get('facts', {})
        o['_verdict'] = v
        k = key_fn(o, v) if key_fn else None
        if k is not None:
            rep.keys.add(k)
        if sample_fn:
            rep.sample(sample_fn(o, v))
        if fails:
            kf = match_known(rep.pid, fails, devs, rep.known)
            if kf:
                rep.known_hit(kf, {'call': brief_call(o['_call']), 'clauses': fails})
            else:
                rep.violation({'call': o['_call'], 'failing_clauses': fails, 'deviations': devs,
                               'facts': {a: b for a, b in facts.items() if a != 'scores'}, 'props': o['props'],
                               'exp_extra': {kk: vv for kk, vv in o['exp'].items() if kk in ('faults', 'exh_single')}},
                              f"{brief_call(o['_call'])} fails {fails} (deviations {devs})")
        results.append((o, v, fails))
    return results


def brief_call(c):
    content = symobs.dec_content(c['content'])
    r = repr(content)
    if len(r) > 60:
        r = r[:40] + f'...<{len(r)} chars>'
    if c.get('container'):
        r = f"<{c['container']} of> {r}"
    kw = ', '.join(f'{k}={v!r}' for k, v in c['kw'].items())
    return f"{c['api']}({r}{', ' if kw else ''}{kw})"
