CONSTANTS
  MaxNonDefault = 2
SPECIFICATION Spec
CHECK_DEADLOCK FALSE
INVARIANT ExclusionsRefused
INVARIANT NeverOtherException
INVARIANT SpellingsAccepted
INVARIANT Export
