"""bin/check --selftest: negative controls that show the binding between specification and code is real.

(a) recorded observations are corrupted in one field; TLC must reject each with the expected clause;
(b) the deviation branches of the design models must be found by TLC (violated invariants)."""
import copy
import io
import json
from . import common, symobs, props_render, project
from .symobs import call


def sym_controls():
    base = symobs.observe(call('make', 'SELFTEST 123', micro=False, error='M', boost_error=False), props=['C01', 'C02', 'C03', 'C06', 'C13'])
    base7 = symobs.observe(call('make', 'x' * 100, version=7, error='L', boost_error=False), props=['C01', 'C02', 'C03'])
    n = len(base['res']['matrix'])
    ctl = []

    def mut(name, expect, fn, src=base):
        o = copy.deepcopy(src)
        fn(o)
        o['_name'] = name
        o['_expect'] = expect
        ctl.append(o)
    mut('unmodified observation', set(), lambda o: None)
    mut('one data module flipped', {('C01', 'rs_clean'), ('C03', 'rs_valid')}, lambda o: o['res']['matrix'][n - 1].__setitem__(n - 1, 1 - o['res']['matrix'][n - 1][n - 1]))
    mut('expected payload differs', {('C01', 'payload')}, lambda o: o['exp']['parts'][0]['latin1'].__setitem__(0, 90))
    mut('format bit flipped (copy 1)', {('C02', 'fmt_valid')}, lambda o: o['res']['matrix'][8].__setitem__(0, 1 - o['res']['matrix'][8][0]))
    mut('format bit flipped (copy 2)', {('C02', 'fmt_copy2')}, lambda o: o['res']['matrix'][8].__setitem__(n - 1, 1 - o['res']['matrix'][8][n - 1]))
    mut('finder module flipped', {('C02', 'finder')}, lambda o: o['res']['matrix'][3].__setitem__(3, 0))
    mut('timing module flipped', {('C02', 'timing')}, lambda o: o['res']['matrix'][6].__setitem__(10, 1 - o['res']['matrix'][6][10]))
    mut('dark module cleared', {('C02', 'dark')}, lambda o: o['res']['matrix'][n - 8].__setitem__(8, 0))
    mut('reported mask wrong', {('C02', 'meta_mask')}, lambda o: o['res'].__setitem__('mask', (o['res']['mask'] + 1) % 8))
    mut('reported error level wrong', {('C02', 'meta_error')}, lambda o: o['res'].__setitem__('error', 'H'))
    mut('reported version wrong', {('C02', 'meta_version')}, lambda o: o['res'].__setitem__('version', 2))
    mut('reported mode wrong', {('C02', 'meta_mode')}, lambda o: o['res'].__setitem__('mode', 'numeric'))
    mut('designator wrong', {('C02', 'meta_designator')}, lambda o: o['res'].__setitem__('designator', '1-Q'))
    mut('requested mask not used', {('C06', 'requested')}, lambda o: o['exp'].__setitem__('mask_req', (o['res']['mask'] + 1) % 8))
    mut('value 2 in the matrix', {('C01', 'values01'), ('C02', 'values01'), ('C03', 'values01'), ('C06', 'values01'), ('C13', 'values01')},
        lambda o: o['res']['matrix'][n - 1].__setitem__(0, 2))
    n7 = len(base7['res']['matrix'])
    mut('version information bit flipped', {('C02', 'version_info')}, lambda o: o['res']['matrix'][0].__setitem__(n7 - 11, 1 - o['res']['matrix'][0][n7 - 11]), base7)
    mut('alignment module flipped', {('C02', 'alignment')}, lambda o: o['res']['matrix'][22].__setitem__(22, 0), base7)
    return ctl


def reencoded_png(d, enc, flip=False):
    """the picture of a projected segno PNG (palette / grey, filters None and Up) written again in another legal encoding and projected"""
    import struct
    import zlib
    from . import project
    w, depth = d['width'], d['depth']
    stride = (w * depth + 7) // 8
    rows, prev = [], [0] * stride
    for ln in d['lines']:
        cur = list(ln['data']) if ln['ft'] == 0 else [(a + b) % 256 for a, b in zip(ln['data'], prev)]
        rows.append(cur)
        prev = cur

    def rgba(row, x):
        bit = x * depth
        idx = (row[bit // 8] >> (8 - depth - bit % 8)) & ((1 << depth) - 1)
        if d['ctype'] == 0:
            g = idx * 255 // ((1 << depth) - 1)
            return [g, g, g, 0 if d['trns_grey'] == idx else 255]
        return list(d['plte'][idx]) + [d['trns'][idx] if idx < len(d['trns']) else 255]
    px = [[rgba(r, x) for x in range(w)] for r in rows]
    if flip:
        px[5][7] = [(px[5][7][0] + 128) % 256] + px[5][7][1:]
    if enc == 'rgba':
        ctype, bd, bpp = 6, 8, 4
        raw = [[c for p in r for c in p] for r in px]
    elif enc == 'greyalpha':          # loses the hue: must be rejected for a blue / yellow picture
        ctype, bd, bpp = 4, 8, 2
        raw = [[c for p in r for c in ((p[0] + p[1] + p[2]) // 3, p[3])] for r in px]
    else:
        ctype, bd, bpp = 3, 8, 1
        pal = sorted({tuple(p) for r in px for p in r})
        raw = [[pal.index(tuple(p)) for p in r] for r in px]

    def paeth(a, b, c):
        pp = a + b - c
        pa, pb, pc = abs(pp - a), abs(pp - b), abs(pp - c)
        return a if pa <= pb and pa <= pc else (b if pb <= pc else c)
    out, prev = bytearray(), [0] * len(raw[0])
    for y, cur in enumerate(raw):
        ft = (1, 3, 4, 2, 0)[y % 5] if enc == 'rgba' else (1 if enc == 'palette_sub' else 4)
        out.append(ft)
        for i, v in enumerate(cur):
            a = cur[i - bpp] if i >= bpp else 0
            b = prev[i]
            c = prev[i - bpp] if i >= bpp else 0
            pred = {0: 0, 1: a, 2: b, 3: (a + b) // 2, 4: paeth(a, b, c)}[ft]
            out.append((v - pred) % 256)
        prev = cur

    def chunk(name, body):
        return struct.pack('>I', len(body)) + name + body + struct.pack('>I', zlib.crc32(name + body) & 0xffffffff)
    data = b'\x89PNG\r\n\x1a\n' + chunk(b'IHDR', struct.pack('>2I5B', w, len(px), bd, ctype, 0, 0, 0))
    if ctype == 3:
        data += chunk(b'PLTE', b''.join(bytes(p[:3]) for p in pal)) + chunk(b'tRNS', bytes(p[3] for p in pal))
    data += chunk(b'IDAT', zlib.compress(bytes(out))) + chunk(b'IEND', b'')
    return project.png(data)


def render_controls():
    specs = {'version': 1, 'kind': 'png', 'kw': {'scale': 2, 'dark': 'darkblue', 'light': 'yellow'}, 'seed': 0}
    base = props_render.raster_obs(specs)
    ctl = []

    def mut(name, expect, fn, src):
        o = copy.deepcopy(src)
        fn(o)
        o['_name'], o['_expect'] = name, expect
        ctl.append(o)
    mut('unmodified PNG', set(), lambda o: None, base)
    mut('PNG: one scanline byte changed', {('C09', 'pixels')}, lambda o: o['doc']['lines'][20]['data'].__setitem__(2, o['doc']['lines'][20]['data'][2] ^ 0x10), base)
    mut('PNG: declared width + 1', {('C09', 'dimensions')}, lambda o: o['doc'].__setitem__('width', o['doc']['width'] + 1), base)
    mut('PNG: palette colour changed', {('C09', 'pixels')}, lambda o: o['doc']['plte'][0].__setitem__(0, (o['doc']['plte'][0][0] + 1) % 256), base)
    mut('PNG: bad chunk CRC', {('C09', 'container')}, lambda o: o['doc'].__setitem__('crc_ok', False), base)
    mut('PNG: border argument differs', {('C09', 'dimensions')}, lambda o: o.__setitem__('border', 3), base)
    # the same picture in other legal PNG encodings must be accepted: RGBA with rotating Sub / Average / Paeth filters, palette with Sub
    for name, enc in (('RGBA, filters Sub/Average/Paeth/Up/None', 'rgba'), ('palette, filter Sub', 'palette_sub'), ('grey+alpha, Paeth', 'greyalpha')):
        mut('PNG re-encoded: ' + name, set() if enc != 'greyalpha' else {('C09', 'pixels')},
            lambda o, enc=enc: o.__setitem__('doc', reencoded_png(o['doc'], enc)), base)
    mut('PNG re-encoded as RGBA, one pixel changed', {('C09', 'pixels')},
        lambda o: o.__setitem__('doc', reencoded_png(o['doc'], 'rgba', flip=True)), base)
    svg = props_render.vector_obs({'version': 1, 'kind': 'svg', 'kw': {'scale': 2, 'light': 'yellow'}, 'seed': 0, 'family': 'vector'})
    mut('unmodified SVG', set(), lambda o: None, svg)
    mut('SVG: one stroke one module longer', {('C10', 'cover_exact')}, lambda o: [p for p in o['doc']['paths'] if p['kind'] == 'stroke'][0]['ops'][1].__setitem__('a', [p for p in o['doc']['paths'] if p['kind'] == 'stroke'][0]['ops'][1]['a'] + 1000000), svg)
    mut('SVG: width attribute wrong', {('C10', 'page')}, lambda o: o['doc'].__setitem__('width', o['doc']['width'] + 2000000), svg)
    mut('SVG: y not on a module centre', {('C10', 'path_grid'), ('C10', 'cover_exact')},
        lambda o: [p for p in o['doc']['paths'] if p['kind'] == 'stroke'][0]['ops'][0].__setitem__('b', 4000000), svg)
    mut('SVG: background missing', {('C10', 'background')}, lambda o: o['doc'].__setitem__('paths', [p for p in o['doc']['paths'] if p['kind'] != 'fill']), svg)
    mut('SVG: stroke colour wrong', {('C10', 'dark_colour')}, lambda o: [p for p in o['doc']['paths'] if p['kind'] == 'stroke'][0].__setitem__('rgba', [1, 2, 3, 255]), svg)
    return ctl


def run():
    common.use_repo()
    from . import tables
    tables.load()
    ok = True
    for name, module, ctl in (('symbol observations', 'Trace_Sym', sym_controls()), ('documents', 'Trace_Render', render_controls())):
        verdicts, _ = common.validate_observations('selftest', module, ctl, tag='selftest')
        for o in ctl:
            got = {tuple(x) for x in verdicts[o['tid']]['fails']}
            want = o['_expect']
            good = want <= got if want else not got
            ok &= good
            print(('ok   ' if good else 'FAIL ') + f"{name}: {o['_name']}: expected {sorted(want)} got {sorted(got)}")
    for module, cfg, needle in (('Purity', 'Purity_dev.cfg', 'is violated'), ('MC_Segno', 'Segno_negative.cfg', 'C13_TailAlways is violated')):
        out, st = common.run_tlc(module, cfg=cfg, workers=4, timeout=900)
        good = needle in out
        ok &= good
        print(('ok   ' if good else 'FAIL ') + f'negative control {module}/{cfg}: TLC reports "{needle}"')
    ok &= sa_controls()
    ok &= cli_controls()
    return 0 if ok else 1


def sa_controls():
    """binding of SegnoSA.tla: a genuine sequence is accepted, a flipped module / exchanged symbols / a dropped symbol are rejected"""
    import copy
    from . import props_sym, symobs
    from .symobs import call
    q = {'mode': 'none', 'version': 1, 'count': -1, 'error': '-', 'eci': False, 'boost': True}
    m = {'bytes': [55] * 45, 'enc': 'l1'}
    _, _, syms = symobs.execute(call('make_sequence', bytes(m['bytes']), version=1))
    base = {'msg': m, 'q': q, 'status': 'ok', 'syms': [{'matrix': s['matrix']} for s in syms]}
    flipped = copy.deepcopy(base)
    flipped['syms'][1]['matrix'][20][20] ^= 1
    swapped = copy.deepcopy(base)
    swapped['syms'].reverse()
    dropped = copy.deepcopy(base)
    dropped['syms'].pop()
    refused = dict(base, status='ValueError', syms=[])
    ctl = [dict(base, _name='genuine sequence', _expect=set()), dict(flipped, _name='one module flipped', _expect={('SPEC', 'matrix_differs')}),
           dict(swapped, _name='symbols exchanged', _expect={('C08', 'headers')}), dict(dropped, _name='last symbol dropped', _expect={('C08', 'symbol_count')}),
           dict(refused, _name='refusal of an acceptable request', _expect={('C14', 'refused_although_accepted_by_spec')})]

    class R:
        pid = 'selftest'
    verdicts, _ = props_sym.validate_all_branches(R, ctl, module='Trace_SegnoSA', tag='selftest_sa')
    ok = True
    for o in ctl:
        branches = verdicts[o['tid']]
        accepted = any(not b['fails'] for b in branches)
        got = set() if accepted else {tuple(x) for b in branches for x in b['fails']}
        good = (o['_expect'] <= got) if o['_expect'] else accepted
        ok &= good
        print(('ok   ' if good else 'FAIL ') + f"sequence conformance: {o['_name']}: expected {sorted(o['_expect'])} got {sorted(got)}")
    return ok


def cli_controls():
    """binding of Cli.tla: a genuine run is accepted; another reference call, another document, a swallowed refusal are rejected"""
    import copy
    from . import props_routes
    fl = {'version': 'micro_upper', 'error': 'dash', 'mode': 'none', 'micro': 'none', 'pattern': 'none', 'boost': True, 'seq': False, 'encoding': 'none',
          'count': 'none', 'content': 'digits'}
    api = {'fn': 'make', 'version': 'micro_upper', 'error': 'none', 'mode': 'none', 'mask': 'none', 'boost': True, 'encoding': 'none', 'count': 'absent', 'micro': 'none'}
    base = props_routes.cli_factory_obs({'flags': fl, 'api': api})
    other_call = copy.deepcopy(base)
    other_call['ref_call'] = dict(api, micro='false')
    other_doc = copy.deepcopy(base)
    other_doc['cli']['sha'] = '0' * 64
    swallowed = copy.deepcopy(base)
    swallowed['ref'] = {'status': 'ValueError', 'files': 0, 'sha': ''}
    ctl = [dict(base, _name='genuine run', _expect=set()), dict(other_call, _name='reference call is not the specified one', _expect={('C12', 'reference_is_the_specified_call')}),
           dict(other_doc, _name='document differs', _expect={('C12', 'same_document')}),
           dict(swallowed, _name='API refuses, tool writes a file', _expect={('C12', 'same_outcome'), ('C12', 'refusal_exit_1_message_no_file')})]
    verdicts, _ = common.validate_observations('selftest', 'Trace_Cli', ctl, tag='selftest_cli')
    ok = True
    for o in ctl:
        got = {tuple(x) for x in verdicts[o['tid']]['fails']}
        good = (o['_expect'] <= got) if o['_expect'] else not got
        ok &= good
        print(('ok   ' if good else 'FAIL ') + f"cli conformance: {o['_name']}: expected {sorted(o['_expect'])} got {sorted(got)}")
    return ok
