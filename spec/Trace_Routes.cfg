CONSTANTS
  MaxOpts = 1
INIT TraceInit
NEXT TraceNext
CHECK_DEADLOCK FALSE
INVARIANT SameDocument
POSTCONDITION AllJudged
