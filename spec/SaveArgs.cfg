SPECIFICATION Spec
CHECK_DEADLOCK FALSE
INVARIANT RefusedIffMalformed
INVARIANT Export
