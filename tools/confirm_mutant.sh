#!/bin/sh
# usage: confirm_mutant.sh <dir with patch.diff demo.py>   -> prints one line: <dir> apply=.. tests=.. demo_patched=.. demo_orig=..
D="$1"
N=$(echo "$D" | tr '/' '_')
WT=/tmp/cw/$N
rm -rf "$WT"; mkdir -p /tmp/cw
git -C /repo worktree add --detach "$WT" HEAD >/dev/null 2>&1 || { echo "$D worktree-failed"; exit 1; }
if git -C "$WT" apply "$D/patch.diff" 2>/tmp/cw/$N.applyerr; then AP=ok; else AP=FAIL; fi
if [ "$AP" = ok ]; then
  T=$(cd "$WT" && /venv/bin/python -m pytest -q -p no:cacheprovider -x 2>&1 | tail -1)
  timeout 600 /venv/bin/python "$D/demo.py" "$WT" >/tmp/cw/$N.demo_p 2>&1; DP=$?
else T=-; DP=-; fi
timeout 600 /venv/bin/python "$D/demo.py" /repo >/tmp/cw/$N.demo_o 2>&1; DO=$?
git -C /repo worktree remove --force "$WT" >/dev/null 2>&1
echo "$D apply=$AP tests=[$T] demo_patched=$DP demo_orig=$DO"
