CONSTANTS
  Scope = "trace"
  BVersions <- Nothing
  SmallMaxN = 0
  SmallVersions <- Nothing
  VSels <- Nothing
  Slim = FALSE
  Variants <- NoSeq
  PartPool <- Pool
  MaxParts = 2
  ReqModesMP = {"none", "byte", "numeric", "kanji"}
  ReqVersionsMP <- VersionsMP
  ReqLevelsMP = {"-", "L", "H"}
  ReqMicroMP = {"none", "no"}
  ReqEci = {TRUE, FALSE}
  ReqBoostMP = {TRUE, FALSE}
  AllowDevPadMP = TRUE
INIT MInit
NEXT MNext
CHECK_DEADLOCK FALSE
INVARIANT C01_PayloadMP
INVARIANT C01_EciMP
INVARIANT C04_SmallestMP
INVARIANT C05_LevelMP
INVARIANT C13_TailMP
INVARIANT MExport
