CONSTANTS
  MsgPool <- PoolQuickSA
  ReqModesSA = {"none", "byte"}
  ReqVersionsSA <- VersionsQuickSA
  ReqCountsSA <- CountsQuickSA
  ReqLevelsSA = {"-", "H"}
  ReqEciSA = {FALSE}
  ReqBoostSA = {TRUE}
  AllowDevPadSA = TRUE
  AllowDevEstimate = TRUE
INIT SAInit
NEXT SANext
CHECK_DEADLOCK FALSE
INVARIANT C08_Count
INVARIANT C08_Version
INVARIANT C08_EachValid
INVARIANT C08_Headers
INVARIANT C08_Reassembly
INVARIANT C07_SeqMode
INVARIANT C05_SeqLevel
INVARIANT C13_SeqTail
INVARIANT SA_Progress
