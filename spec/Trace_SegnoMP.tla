---------------------------- MODULE Trace_SegnoMP ----------------------------
(* Exact-matrix conformance for multi-part content / requested modes / ECI: the actions of SegnoMP.tla are run from the state the
   observation's arguments define and the matrix of every terminal behaviour is compared with the observed one (see Trace_Segno). *)
EXTENDS SegnoMP, IOUtils, TLCExt
Obs == JsonDeserialize(IOEnv.TRACE_FILE)
N == Len(Obs)
VARIABLES tid, judged
tvars == <<tid, judged>>
TraceInit == /\ tid \in 1..N /\ judged = FALSE
             /\ parts = Obs[tid].parts
             /\ a = Args("l1", 1, Obs[tid].mode, Obs[tid].version, Obs[tid].error, Obs[tid].micro, Obs[tid].eci, Obs[tid].boost)
             /\ stage = "decide" /\ segs = <<>> /\ bits = <<>> /\ endp = 0 /\ fbits = <<>> /\ usedmask = -1 /\ M = <<>> /\ dev = FALSE
             /\ pc = "start" /\ mode = "none" /\ ver = NoVersion /\ lvl = "?" /\ out = [st |-> "?"]
Terminal == stage = "returned" \/ (pc = "done" /\ out.st # "ok")
Judge == /\ Terminal /\ ~judged /\ judged' = TRUE /\ UNCHANGED <<allv, tid>>
         /\ LET o == Obs[tid]
                refused == stage # "returned"
                obs_ok == o.status = "ok"
                od == IF obs_ok /\ ValidShape(o.matrix) /\ Values01(o.matrix) THEN Decode(o.matrix) ELSE Decode(M)
                fails ==
                  IF refused THEN (IF obs_ok THEN {<<"C14", "accepted_although_refused_by_spec">>} ELSE {})
                  ELSE IF ~obs_ok THEN {<<"C14", "refused_although_accepted_by_spec">>}
                  ELSE IF o.matrix = M THEN {}
                  ELSE {<<"SPEC", "matrix_differs">>}
                       \cup (IF od.d.payload # WantPayload \/ od.d.parse # "end" THEN {<<"C01", "payload">>} ELSE {})
                       \cup (IF [i \in 1..Len(od.d.segs) |-> od.d.segs[i].kind] # [i \in 1..Len(segs) |-> segs[i].kind] THEN {<<"C01", "eci_rule">>} ELSE {})
                       \cup (IF od.v # out.version THEN {<<"C04", "version">>} ELSE {})
                       \cup (IF od.fmt.level # out.error THEN {<<"C05", "level">>} ELSE {})
                       \cup (IF od.fmt.mask # usedmask THEN {<<"C06", "mask">>} ELSE {})
                       \cup (IF ~od.d.rs_ok THEN {<<"C03", "rs_valid">>} ELSE {})
            IN PrintT(<<"VERDICT", ToJson([tid |-> o.tid, fails |-> fails, devs |-> IF dev THEN {"Dev_PadBitsWhenAligned"} ELSE {},
                                            facts |-> [equal |-> (~refused /\ obs_ok /\ o.matrix = M), dev |-> dev, refused |-> refused]])>>)
TraceNext == (MNext /\ UNCHANGED tvars) \/ Judge
AllJudged == TLCGet("distinct") >= 3 * N
=============================================================================
