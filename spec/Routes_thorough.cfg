CONSTANTS
  MaxOpts = 2
SPECIFICATION Spec
CHECK_DEADLOCK FALSE
INVARIANT SameDocument
INVARIANT CliDropsUnsupported
INVARIANT Export
