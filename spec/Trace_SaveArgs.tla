--------------------------- MODULE Trace_SaveArgs ---------------------------
(* Trace validation of save() / command line executions against SaveArgs.tla (C14) *)
EXTENDS SaveArgs, IOUtils, TLCExt
Obs == JsonDeserialize(IOEnv.TRACE_FILE)
N == Len(Obs)
VARIABLES tid, judged
tvars == <<tid, judged>>
TraceInit == tid \in 1..N /\ judged = FALSE /\ a = Obs[tid].a /\ pc = "check" /\ refusals = {}
Verdict(o) ==
  LET fails ==
        IF a.family = "save" THEN
           {c \in {"outcome_allowed", "refusal_is_a_ValueError"} :
              CASE c = "outcome_allowed" -> (o.seen = "ok") # ("ok" \in Allowed)
                [] c = "refusal_is_a_ValueError" -> o.seen \notin {"ok", "ValueError"}}
        ELSE
           {c \in {"exit_0_only_with_output", "creation_refusal_exit_1", "library_message_on_stderr", "no_traceback"} :
              CASE c = "exit_0_only_with_output" -> (o.exit = 0 /\ ~o.output_written) \/ (refusals = {} /\ o.exit # 0)
                [] c = "creation_refusal_exit_1" -> refusals # {} /\ o.exit # 1
                [] c = "library_message_on_stderr" -> refusals # {} /\ ~o.stderr_is_library_message
                [] c = "no_traceback" -> o.traceback}
  IN [tid |-> o.tid, fails |-> {<<"C14", c>> : c \in fails}, devs |-> {}, facts |-> [allowed |-> Allowed, why |-> refusals, seen |-> o.seen]]
Judge == /\ pc = "done" /\ ~judged /\ judged' = TRUE /\ UNCHANGED <<vars, tid>>
         /\ PrintT(<<"VERDICT", ToJson(Verdict(Obs[tid]))>>)
TraceNext == (Next /\ UNCHANGED tvars) \/ Judge
AllJudged == TLCGet("distinct") >= 3 * N
=============================================================================
