"""Beyond the property list (DESIGN 12): the temporary-file life cycle of QRCode.show(), spec/Show.tla.

bin/check --extras runs this after the object model: TLC checks the design (Show.cfg: safety, the action property, liveness under weak
fairness), the harness calls the real show() with the seams patched (tempfile.NamedTemporaryFile, the file object's close, QRCode.save,
webbrowser.open_new_tab, threading.Thread.start, time.sleep, os.unlink), records one event per specification action in the order they
happen, and Trace_Show validates every recorded call as a behaviour of Show.tla, with the invariants evaluated in every state.
A disagreement is a NONCONFORMANCE with the specification, not a VIOLATION of a listed property."""
import io
import itertools
import json
import os
import threading
import time
from unittest import mock

from . import common, engine

DELAYS_QUICK = [None, 0, 1, 20]
DELAYS_THOROUGH = [None, 0, 1, 2, 3, 7, 20, 30]
# (keyword arguments of show(), does save() accept them)
OPTIONS = [({}, True), ({'scale': 3, 'border': 0}, True), ({'dark': 'darkblue', 'light': None}, True), ({'border': 7, 'light': '#ccc'}, True),
           ({'scale': 0}, False), ({'dark': 'nocolour'}, False), ({'border': -1}, False), ({'scale': -2, 'light': 'nocolour'}, False)]
ENV = ['none', 'after_close', 'in_viewer']
CONTENTS = ['show me', '12345', 'M2']


def one_call(segno, content, micro, delay, kw, env):
    qr = segno.make(content, micro=micro)
    events = []
    lock = threading.Lock()
    state = {'name': None, 'threads': []}

    def log(e, d=0, st='', who=''):
        with lock:
            events.append({'e': e, 'd': d, 'st': st, 'who': who})

    try:
        ref = io.BytesIO()
        qr.save(ref, kind='png', **{'scale': 10, **kw})
        expected = ref.getvalue()
    except ValueError:
        expected = None

    def holds(name):
        try:
            with open(name, 'rb') as f:
                data = f.read()
        except OSError:
            return 'deleted'
        return 'empty' if not data else 'written' if data == expected else 'other'

    import tempfile
    real_ntf, real_unlink, real_save, real_start = tempfile.NamedTemporaryFile, os.unlink, segno.QRCode.save, threading.Thread.start

    class Proxy:
        def __init__(self, f):
            self.__dict__['_f'] = f

        def __getattr__(self, a):
            return getattr(self._f, a)

        def close(self):
            if self._f.closed:
                return
            self._f.close()
            log('Close')
            if env == 'after_close':
                real_unlink(self._f.name)
                log('EnvDelete')

    def ntf(mode='w+b', *a, **k):
        f = real_ntf(mode, *a, **k)
        state['name'] = f.name
        log('Create', st=','.join((k.get('suffix', '').lstrip('.'), mode, 'keep' if k.get('delete') is False else 'autodelete')))
        return Proxy(f)

    def save(self, out, *a, **k):
        try:
            r = real_save(self, out, *a, **k)
        except BaseException:
            log('SaveFail')
            raise
        out.flush()
        log('SaveOk', st=holds(state['name']))
        return r

    def open_tab(url, *a, **k):
        from urllib.request import url2pathname
        from urllib.parse import urlparse
        path = url2pathname(urlparse(url).path)
        log('OpenBrowser', st=holds(path) if path == state['name'] else 'other')
        if env == 'in_viewer' and os.path.exists(path):
            real_unlink(path)
            log('EnvDelete')
        return True

    def start(self):
        state['threads'].append(self)
        log('StartDeleter')
        return real_start(self)

    def sleep(d):
        log('Sleep', d=int(d))

    def unlink(name, *a, **k):
        if name != state['name']:                # tempfile probes the directory with a file of its own on first use
            return real_unlink(name, *a, **k)
        who = 'main' if threading.current_thread() is threading.main_thread() else 'deleter'
        try:
            r = real_unlink(name, *a, **k)
        except OSError:
            log('UnlinkFailed' if who == 'main' else 'Unlink', who=who)    # the deleter swallows it: the Unlink action with the file gone
            raise
        log('Unlink', who=who)
        return r

    with mock.patch('tempfile.NamedTemporaryFile', ntf), mock.patch.object(segno.QRCode, 'save', save), \
            mock.patch('webbrowser.open_new_tab', open_tab), mock.patch.object(threading.Thread, 'start', start), \
            mock.patch('time.sleep', sleep), mock.patch('os.unlink', unlink):
        try:
            qr.show(delete_after=delay, **kw)
            log('Return')
        except ValueError:
            log('Raise')
        except OSError:
            log('RaiseOS')
        for t in state['threads']:
            t.join(20)
    final = holds(state['name']) if state['name'] else 'absent'
    if state['name'] and os.path.exists(state['name']):
        real_unlink(state['name'])
    return events, final


def run(tier):
    t0 = time.time()
    rep = engine.Report('show', tier)
    cfg = 'Show.cfg' if tier == 'quick' else 'Show_thorough.cfg'
    out, st = common.run_tlc('Show', cfg=cfg, workers=2, timeout=600, xmx='2g', coverage=True)
    if not common.tlc_ok(out, st):
        raise common.MachineryError(f'TLC failed on {cfg}\n' + out[-2000:])
    rep.add_design('Show', cfg, out, st, 'caller x deleter x environment, delays None, 0..3 (quick) / 0..8 (thorough); 8 invariants, action property ReturnDoesNotWait, '
                   'liveness Terminates / EventuallyDeleted / KeptWithoutDelay under weak fairness')
    segno = common.use_repo()
    delays = DELAYS_QUICK if tier == 'quick' else DELAYS_THOROUGH
    obs = []
    for (content, delay, (kw, ok), env) in itertools.product(CONTENTS, delays, OPTIONS, ENV):
        events, final = one_call(segno, content, None if content == 'M2' else False, delay, kw, env)
        obs.append({'delay': -1 if delay is None else delay, 'saveok': ok, 'events': events, 'final': final,
                    '_what': f'make({content!r}).show(delete_after={delay}, **{kw}) env={env}'})
    verdicts, st2 = common.validate_observations('show', 'Trace_Show', obs, shards=4, tag='show')
    bad = []
    devs = set()
    for o in obs:
        v = verdicts[o['tid']]
        fails = sorted(c for (p, c) in v['fails'])
        devs.update(v.get('devs', []))
        if fails:
            bad.append((o['_what'], fails, v['facts'], [e['e'] for e in o['events']]))
    for what, fails, facts, evs in bad[:25]:
        print(f'NONCONFORMANCE spec=Show {what}: fails {fails}; {facts}; events {evs}')
    summary = {'spec': 'Show.tla', 'tier': tier, 'design_run': rep.design, 'calls_recorded': len(obs),
               'events_recorded': sum(len(o['events']) for o in obs), 'observations_judged_by_tlc': len(verdicts),
               'trace_states': st2['states'], 'nonconformances': len(bad), 'named_deviations_taken': sorted(devs), 'wall_s': round(time.time() - t0, 1),
               'note': 'not a check of a listed property; see DESIGN.md section 12'}
    os.makedirs(os.path.join(common.VERIF, 'extras'), exist_ok=True)
    with open(os.path.join(common.VERIF, 'extras', 'show.json'), 'w') as f:
        json.dump(summary, f, indent=1)
    print(f"extras show {tier}: {len(obs)} recorded calls ({summary['events_recorded']} events) judged by TLC, "
          f"{len(bad)} nonconformances, {time.time() - t0:.0f}s")
    return 1 if bad else 0
