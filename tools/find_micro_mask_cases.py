"""Search for Micro QR contents whose mask evaluation (ISO 7.8.3.2) is in a corner: a completely dark right column / bottom row under
some pattern, or an exact tie at the maximum.  Candidate selector only (independent scorer); TLC re-evaluates every corpus entry.
usage: find_micro_mask_cases.py <per category> <seed>   -> appends category 'micro_*' entries to harness/data/mask_ties.json"""
import json
import os
import random
import sys
from concurrent.futures import ProcessPoolExecutor
sys.path.insert(0, os.environ.get('VERIF_REPO', '/repo'))
import segno  # noqa: E402


def examine(args):
    content, version, error = args
    sc, edges = [], []
    try:
        for mask in range(4):
            qr = segno.make(content, version=version, error=error, mask=mask, boost_error=False)
            m = qr.matrix
            n = len(m)
            s1 = sum(m[r][n - 1] for r in range(1, n))
            s2 = sum(m[n - 1][c] for c in range(1, n))
            sc.append(min(s1, s2) * 16 + max(s1, s2))
            edges.append((s1, s2, n - 1))
    except ValueError:
        return None
    best = max(sc)
    tied = [i for i, t in enumerate(sc) if t == best]
    full = [i for i, (s1, s2, k) in enumerate(edges) if s1 == k or s2 == k]
    cat = None
    if full:
        cat = 'micro_full_edge_wins' if any(i in tied for i in full) else 'micro_full_edge'
        if any(min(edges[i][0], edges[i][1]) % 2 == 1 for i in full):
            cat += '_odd'
    elif len(tied) > 1:
        cat = 'micro_tie'
    if cat is None:
        return None
    return {'content': content, 'version': version, 'error': error, 'tied': tied, 'parts': [list(e) for e in edges], 'cat': cat}


def main():
    want, seed = int(sys.argv[1]), int(sys.argv[2])
    r = random.Random(seed)
    alpha = 'ABCDEFGHIJKLMNOPQRSTUVWXYZ0123456789 $%*+-./:'
    found = {}
    with ProcessPoolExecutor(8) as ex:
        for batch in range(300):
            jobs = []
            for _ in range(8000):
                v = r.choice(('M4', 'M4', 'M4', 'M4', 'M4', 'M3', 'M3', 'M2'))
                e = r.choice({'M4': 'LMQ', 'M3': 'LM', 'M2': 'LM'}[v])
                n = r.randint(1, {'M4': 18, 'M3': 11, 'M2': 5}[v])
                c = ''.join(r.choice(alpha if r.random() < 0.6 else '0123456789') for _ in range(n))
                jobs.append((c, v, e))
            for res in ex.map(examine, jobs, chunksize=200):
                if res:
                    lst = found.setdefault(res['cat'] + '_' + res['version'], [])
                    if len(lst) < want:
                        lst.append(res)
            print(batch, {k: len(v) for k, v in found.items()}, flush=True)
            if all(len(found.get(k, [])) >= want for k in ('micro_full_edge_wins_odd_M4', 'micro_full_edge_odd_M4', 'micro_tie_M4', 'micro_tie_M3')) and batch > 5:
                break
    p = os.path.join(os.path.dirname(os.path.abspath(__file__)), '..', 'harness', 'data', 'mask_ties.json')
    d = json.load(open(p))
    d['entries'] = [e for e in d['entries'] if not e['cat'].startswith('micro_')] + [x for k in sorted(found) for x in found[k]]
    d['note_micro'] = 'micro_* entries selected by tools/find_micro_mask_cases.py (seed %d)' % seed
    json.dump(d, open(p, 'w'), indent=0)
    print('written', len(d['entries']))


if __name__ == '__main__':
    main()
