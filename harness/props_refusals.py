"""C14 (serialisers and command line): SaveArgs.tla vectors -> executions -> Trace_SaveArgs."""
import io
import os
import shutil
import subprocess
import sys
import tempfile
import multiprocessing as mp
from . import common, engine, props_routes

SCALE = {'two': 2, 'zero': 0, 'negative': -1, 'half': 0.5, 'one_and_half': 1.5}
BORDER = {'zero': 0, 'three': 3, 'negative': -1, 'fraction': 1.5}
COLOUR = {'name': 'darkblue', 'hex3': '#36c', 'hex6': '#3366CC', 'tuple': (10, 20, 30), 'hex2': '#12', 'hex5': '#12345', 'hex_bad_digit': '#ggg',
          'unknown_name': 'nocolour', 'tuple2': (1, 2), 'tuple_256': (0, 0, 256), 'tuple_negative': (-1, 0, 0), 'alpha_2': (0, 0, 0, 2.0), 'empty': '',
          'hex_sign': '#+1+2+3', 'hex_space': '# 1 2 3', 'hex_minus': '#-1-2-3', 'hex_underscore': '#12_345', 'hex_0x': '#0x1234',
          'tuple5': (10, 20, 30, 255, 0), 'tuple6': (10, 20, 30, 40, 50, 60), 'tuple0': (), 'tuple1': (7,), 'alpha_256': (0, 0, 0, 256), 'alpha_neg': (0, 0, 0, -1), 'alpha_255f': (0, 0, 0, 255.0)}
TWIN = {'alpha_2': (0, 0, 0, 2), 'alpha_255f': (0, 0, 0, 255)}      # valid colours that compare equal to a malformed one
BINARY = props_routes.BINARY
CONTENT = 'C14 refusal test'


def classify(e):
    if e is None:
        return 'ok'
    if isinstance(e, ValueError):
        return 'ValueError'
    return type(e).__name__


def save_obs(vec):
    segno = common.use_repo()
    a = vec['args']
    qr = segno.make(CONTENT, micro=False)
    kw = {}
    if a['scale'] != 'default':
        kw['scale'] = SCALE[a['scale']]
    if a['border'] != 'default':
        kw['border'] = BORDER[a['border']]
    if a['colour'] != 'default':
        kw[a['which']] = COLOUR[a['colour']]
    kind = {'known': a['kind'], 'known_upper': a['kind'].upper(), 'unknown': 'foo', 'empty': ''}[a['kindc']]
    buf = io.BytesIO() if a['kind'] in BINARY else io.StringIO()
    err = None
    if a.get('prior') == 'twin':
        # the same process has just serialised the valid colour that compares equal to the malformed one
        for knd in ('png', 'svg', a['kind']):
            try:
                qr.save(io.BytesIO() if knd in BINARY else io.StringIO(), kind=knd, **dict(kw, **{a['which']: TWIN[a['colour']]}))
            except Exception:  # noqa
                pass
    via = a.get('via', 'save')
    try:
        if via == 'uri':
            (qr.png_data_uri if a['kind'] == 'png' else qr.svg_data_uri)(**kw)
        elif via == 'inline':
            qr.svg_inline(**kw)
        else:
            qr.save(buf, kind=kind, **kw)
    except Exception as e:  # noqa
        err = e
    if via != 'save':
        kind = {'uri': a['kind'] + '_data_uri', 'inline': 'svg_inline'}[via]
    return {'_vec': vec, 'a': a, 'seen': classify(err), 'exit': 0, 'output_written': True, 'stderr_is_library_message': True, 'traceback': False,
            '_what': f"save(kind={kind!r}, {kw})" + (' after the equal valid colour' if a.get('prior') == 'twin' else ''), '_msg': str(err)[:100] if err else ''}


CLI = {'ok_file': (['--scale', '2'], True), 'ok_terminal': ([], False), 'ok_lower_micro_version': (['--version', 'm2'], True),
       'ok_upper_micro_version': (['-v', 'M3'], True), 'ok_micro_flag': (['--micro'], True), 'ok_lower_error': (['--error', 'q'], True),
       'ok_mode_upper': (['--mode', 'BYTE'], True), 'bad_version': (['--version', '41'], True),
       'H_with_micro_version': (['--version', 'M2', '--error', 'H'], True), 'overflow_version_1': (['--version', '1', '--error', 'H'], True),
       'numeric_mode_for_text': (['--mode', 'numeric'], True), 'pattern_9': (['--pattern', '9'], True),
       'symbol_count_17': (['--seq', '--symbol-count', '17'], True), 'eci_unavailable_micro': (['--version', 'M5x'], False),
       'version_M5': (['--version', 'M5'], True), 'seq_without_version': (['--seq'], True)}


def expected_message(cls):
    """the library message: what the corresponding API call raises"""
    segno = common.use_repo()
    content = CONTENT if cls != 'overflow_version_1' else CONTENT * 3
    try:
        if cls == 'bad_version':
            segno.make(content, version='41', micro=False)
        elif cls == 'H_with_micro_version':
            segno.make(content, version='M2', error='H', micro=None)
        elif cls == 'overflow_version_1':
            segno.make(content, version='1', error='H', micro=False)
        elif cls == 'numeric_mode_for_text':
            segno.make(content, mode='numeric', micro=False)
        elif cls == 'pattern_9':
            segno.make(content, mask=9, micro=False)
        elif cls == 'symbol_count_17':
            segno.make_sequence(content, symbol_count=17)
        elif cls == 'eci_unavailable_micro':
            segno.make(content, version='M5x', micro=False)
        elif cls == 'version_M5':
            segno.make(content, version='M5', micro=False)
        elif cls == 'seq_without_version':
            segno.make_sequence(content)
    except ValueError as e:
        return str(e)
    return None


def cli_obs(vec, use_subprocess=False):
    common.use_repo()
    a = vec['args']
    flags, with_file = CLI[a['cls']]
    content = CONTENT if a['cls'] != 'overflow_version_1' else CONTENT * 3
    if a['cls'] in ('ok_lower_micro_version', 'ok_upper_micro_version', 'ok_micro_flag'):
        content = '12345'
    tmp = tempfile.mkdtemp(prefix='c14_', dir=common.workdir('C14_tmp'))
    try:
        p = os.path.join(tmp, 'out.png')
        argv = list(flags) + (['--output', p] if with_file else []) + [content]
        if use_subprocess:
            r = subprocess.run([sys.executable, '-m', 'segno.cli'] + argv, env=dict(os.environ, PYTHONPATH=common.REPO), capture_output=True, timeout=120)
            status, out, err = r.returncode, r.stdout.decode('utf-8', 'replace'), r.stderr.decode('utf-8', 'replace')
            tb = 'Traceback (most recent call last)' in err
        else:
            status, out, err, tb = props_routes.run_cli(argv)
            tb = tb or 'Traceback (most recent call last)' in err
        written = (os.path.exists(p) and os.path.getsize(p) > 0) if with_file else len(out) > 0
        msg = expected_message(a['cls'])
        return {'_vec': vec, 'a': a, 'seen': 'ok' if status == 0 else 'exit', 'exit': status if isinstance(status, int) else 99, 'output_written': bool(written),
                'stderr_is_library_message': (msg is not None and err.strip() == msg.strip()), 'traceback': bool(tb),
                '_what': ('subprocess ' if use_subprocess else '') + 'segno ' + ' '.join(argv[:6]), '_msg': err[:100]}
    finally:
        shutil.rmtree(tmp, ignore_errors=True)


def _obs(vec):
    return save_obs(vec) if vec['args']['family'] == 'save' else cli_obs(vec)


def run_part(rep, tier):
    out, st = common.run_tlc('SaveArgs', workers=4, timeout=600, coverage=True)
    rep.add_design('SaveArgs', 'SaveArgs.cfg', out, st, 'save() argument classes per kind and command line invocation classes; invariant RefusedIffMalformed')
    vecs = common.parse_vectors(out)
    rep.notes['save_and_cli_vectors_exported_by_tlc'] = len(vecs)
    with mp.get_context('fork').Pool(common.NCPU) as pool:
        obs = pool.map(common.limited, [(_obs, v_) for v_ in vecs], chunksize=max(1, len(vecs) // 64))
    obs += [cli_obs(v, use_subprocess=True) for v in vecs if v['args']['family'] == 'cli' and v['args']['cls'] in ('ok_file', 'bad_version', 'overflow_version_1', 'ok_terminal')]
    rep.evaluations += len(obs)
    verdicts, st = common.validate_observations(rep.pid, 'Trace_SaveArgs', obs, tag='saveargs')
    rep.add_trace_stats(st, len(obs))
    for o in obs:
        v = verdicts[o['tid']]
        fails = sorted(c for (p, c) in v['fails'])
        rep.keys.add(('S', o['_what']))
        rep.sample({'call': o['_what'], 'spec_allows': v['facts']['allowed'], 'observed': o['seen'], 'exit': o['exit']})
        if fails:
            rep.violation({'kind': 'saveargs', 'module': 'props_refusals', 'vector': o['_vec'], 'what': o['_what'], 'failing_clauses': fails},
                          f"{o['_what']}: spec allows {v['facts']['allowed']} {v['facts']['why']}, observed {o['seen']} exit={o['exit']} {o['_msg']!r}; fails {fails}")
    shutil.rmtree(common.workdir('C14_tmp'), ignore_errors=True)


def replay(pid, d):
    common.use_repo()
    o = _obs(d['vector'])
    print('call    :', o['_what'], '->', o['seen'], o['exit'], o['_msg'])
    verdicts, _ = common.validate_observations(pid + '_replay', 'Trace_SaveArgs', [o], shards=1, tag='saveargs')
    v = verdicts[o['tid']]
    print('verdict :', v['fails'])
    if not v['fails']:
        return 0
    print(f'VIOLATION property={pid} replay=(this file)')
    return 1
