------------------------------- MODULE Objects -------------------------------
(***************************************************************************)
(* The objects the factories return, as far as no listed property covers   *)
(* them (DESIGN 12: growth beyond the property list):                      *)
(*                                                                         *)
(*   QRCode            __eq__ (same class and same matrix), __ne__,        *)
(*                     __hash__ = None, no container protocol,             *)
(*                     __getattr__ (only "to_<plugin>" is looked up)       *)
(*   QRCodeSequence    a tuple of QRCode; "iff this sequence contains only *)
(*                     one item, it behaves like QRCode" (__getattr__      *)
(*                     delegates to the item), save / terminal always      *)
(*                     exist and treat the items one after the other       *)
(*                                                                         *)
(* State: the objects created so far (class, number of items, one key per  *)
(* item: the identity of its matrix) and the last operation with the       *)
(* outcome the object model gives.  Actions: Make, MakeSeq (creation),     *)
(* Op (one operation on the objects).  Every Op state is exported as a     *)
(* vector; the harness builds the objects with the real factories, applies *)
(* the operation and Trace_Objects compares (the keys of an observation    *)
(* are SHA-256 digests of the real matrices).                              *)
(***************************************************************************)
EXTENDS Integers, Sequences, FiniteSets, TLC, Json

CONSTANTS MaxObjs

Contents == {"a", "b"}
\* attributes of QRCode (properties and methods), of both classes, and names that do not exist
QRAttrs == {"version", "error", "mode", "mask", "designator", "matrix", "is_micro", "default_border_size",
            "symbol_size", "matrix_iter", "png_data_uri", "svg_data_uri", "svg_inline", "show"}
BothAttrs == {"save", "terminal"}
UnknownAttrs == {"nonexistent", "to_nonexistent_plugin", "to_"}
\* "to_<name>" with a converter <name> registered in the entry point group segno.plugin.converter: a callable bound to the symbol
PluginAttrs == {"to_installed"}
Attrs == QRAttrs \cup BothAttrs \cup UnknownAttrs \cup PluginAttrs

Obj(cls, c, n) == [cls |-> cls, content |-> c, n |-> n, keys |-> [k \in 1..n |-> <<c, k, n>>]]

OpNames == {"eq", "ne", "hash", "contains", "len", "attr", "iter_terminal"}
NoOp == [name |-> "none", i |-> 0, j |-> 0, attr |-> "none"]

(* ------------------------------------------------------------------ the object model *)
IsSeq(o) == o.cls = "QRCodeSequence"
ObjEq(x, y) == x.cls = y.cls /\ x.keys = y.keys
\* tuple.__contains__ compares the items with ==; an item never equals a sequence
ItemIn(seq, y) == IF IsSeq(y) THEN FALSE ELSE \E k \in 1..seq.n : seq.keys[k] = y.keys[1]
BoolStr(b) == IF b THEN "True" ELSE "False"
Expected(objs, op) ==
  LET x == objs[op.i] IN
  CASE op.name = "eq" -> BoolStr(ObjEq(x, objs[op.j]))
    [] op.name = "ne" -> BoolStr(~ObjEq(x, objs[op.j]))
    [] op.name = "hash" -> "TypeError"                    \* QRCode.__hash__ is None; a tuple hashes its items
    [] op.name = "contains" -> IF IsSeq(x) THEN BoolStr(ItemIn(x, objs[op.j])) ELSE "TypeError"
    [] op.name = "len" -> IF IsSeq(x) THEN ToString(x.n) ELSE "TypeError"
    [] op.name = "attr" -> IF op.attr \in BothAttrs THEN "present"
                           ELSE IF op.attr \in QRAttrs \cup PluginAttrs /\ (~IsSeq(x) \/ x.n = 1) THEN "present"
                           ELSE "AttributeError"
    [] op.name = "iter_terminal" -> IF IsSeq(x) THEN "items_in_order" ELSE "single"

VARIABLES objs, op, result
vars == <<objs, op, result>>
Init == objs = <<>> /\ op = NoOp /\ result = "?"
Make(c) == /\ op = NoOp /\ Len(objs) < MaxObjs /\ objs' = Append(objs, Obj("QRCode", c, 1)) /\ UNCHANGED <<op, result>>
MakeSeq(c, n) == /\ op = NoOp /\ Len(objs) < MaxObjs /\ objs' = Append(objs, Obj("QRCodeSequence", c, n)) /\ UNCHANGED <<op, result>>
Op(o) ==
  /\ op = NoOp /\ objs # <<>>
  /\ o.i \in 1..Len(objs)
  /\ IF o.name \in {"eq", "ne", "contains"} THEN o.j \in 1..Len(objs) ELSE o.j = 0
  /\ IF o.name = "attr" THEN o.attr \in Attrs ELSE o.attr = "none"
  /\ op' = o /\ result' = Expected(objs, o) /\ UNCHANGED objs
Next == \/ \E c \in Contents : Make(c) \/ \E n \in 1..2 : MakeSeq(c, n)
        \/ \E o \in [name : OpNames, i : 1..MaxObjs, j : 0..MaxObjs, attr : Attrs \cup {"none"}] : Op(o)
Spec == Init /\ [][Next]_vars

(* ------------------------------------------------------------------ design properties of the object model *)
Idx == 1..Len(objs)
EqReflexive == \A i \in Idx : ObjEq(objs[i], objs[i])
EqSymmetric == \A i, j \in Idx : ObjEq(objs[i], objs[j]) = ObjEq(objs[j], objs[i])
EqTransitive == \A i, j, k \in Idx : ObjEq(objs[i], objs[j]) /\ ObjEq(objs[j], objs[k]) => ObjEq(objs[i], objs[k])
\* equal objects are interchangeable for every operation of the model (== is a congruence)
EqCongruence == \A i, j \in Idx : ObjEq(objs[i], objs[j]) =>
                   \A name \in OpNames \ {"eq", "ne", "contains"} : \A a \in (IF name = "attr" THEN Attrs ELSE {"none"}) :
                      Expected(objs, [name |-> name, i |-> i, j |-> 0, attr |-> a]) = Expected(objs, [name |-> name, i |-> j, j |-> 0, attr |-> a])
\* a symbol never equals a sequence, not even the sequence that holds only this symbol
SymbolNeverEqualsSequence == \A i, j \in Idx : objs[i].cls # objs[j].cls => ~ObjEq(objs[i], objs[j])
\* the sequence behaves like QRCode iff it has one item
DelegationIffSingle == \A i \in Idx : IsSeq(objs[i]) =>
                         \A a \in QRAttrs \cup PluginAttrs : (Expected(objs, [name |-> "attr", i |-> i, j |-> 0, attr |-> a]) = "present") = (objs[i].n = 1)
NeIsNotEq == op.name = "ne" => result # Expected(objs, [op EXCEPT !.name = "eq"])
Export == op # NoOp => PrintT(<<"VECTOR", ToJson([objs |-> [k \in 1..Len(objs) |-> [cls |-> objs[k].cls, content |-> objs[k].content, n |-> objs[k].n]],
                                                   op |-> op, expect |-> result])>>)
=============================================================================
