------------------------------- MODULE Render -------------------------------
(***************************************************************************)
(* What a serialised symbol must depict (C09, C10, C11).                   *)
(*                                                                         *)
(* Canvas semantics: a symbol M (n x n), a border b and an integer scale s *)
(* define the canvas of (n+2b)s x (n+2b)s pixels; pixel (x, y) shows       *)
(* module (y div s - b, x div s - b), the quiet zone is light.             *)
(*                                                                         *)
(* Raster machines: PNG (filter 0/2 un-filtering, sample unpacking for bit *)
(* depths 1/2/4/8, greyscale or palette + tRNS), PBM P4/P1, PAM, PPM, XBM  *)
(* (LSB first), XPM, and the text grids TXT / ANSI / compact.              *)
(* The container level (chunk framing, CRC-32, zlib, header tokenising) is *)
(* done by the projection; everything below works on its output.           *)
(***************************************************************************)
EXTENDS ISOTables

\* value (0/1) of canvas cell (row y, column x), in modules, 0-based
Cell(M, b, y, x) == LET n == Len(M) r == y - b c == x - b IN
                    IF r >= 0 /\ r < n /\ c >= 0 /\ c < n THEN M[r+1][c+1] ELSE 0
CanvasCells(M, b) == Len(M) + 2 * b

(* ---------------- colours ---------------- *)
\* CSS colour names the generators use (values from the CSS Color Module, not from segno's table)
CssNames == [black |-> <<0,0,0>>, white |-> <<255,255,255>>, red |-> <<255,0,0>>, green |-> <<0,128,0>>, blue |-> <<0,0,255>>,
             yellow |-> <<255,255,0>>, navy |-> <<0,0,128>>, darkblue |-> <<0,0,139>>, darkred |-> <<139,0,0>>, tan |-> <<210,180,140>>,
             orange |-> <<255,165,0>>, purple |-> <<128,0,128>>, gray |-> <<128,128,128>>, silver |-> <<192,192,192>>,
             lime |-> <<0,255,0>>, teal |-> <<0,128,128>>, fuchsia |-> <<255,0,255>>, aqua |-> <<0,255,255>>, maroon |-> <<128,0,0>>,
             olive |-> <<128,128,0>>, brown |-> <<165,42,42>>, gold |-> <<255,215,0>>, indigo |-> <<75,0,130>>, pink |-> <<255,192,203>>,
             aliceblue |-> <<240,248,255>>, antiquewhite |-> <<250,235,215>>]
\* a colour argument as abstracted by the harness:
\*   [kind |-> "none"]                                     None (transparent)
\*   [kind |-> "name", name |-> "darkblue"]
\*   [kind |-> "hex", digits |-> <<d1, ...>>]              3, 4, 6 or 8 hex digit values
\*   [kind |-> "tuple", v |-> <<r, g, b>> or <<r, g, b, a>>]        a: 0..255
\*   [kind |-> "tuplef", v |-> <<r, g, b>>, alpha_pm |-> 0..1000]   float alpha in per mille
\* result: <<r, g, b, alo, ahi>>: the alpha byte may be any value in alo..ahi (rounding of a float alpha)
ColourOf(c) ==
  CASE c.kind = "none" -> <<0, 0, 0, 0, 0>>
    [] c.kind = "name" -> CssNames[c.name] \o <<255, 255>>
    [] c.kind = "hex" -> LET d == c.digits k == Len(d)
                             e == IF k <= 4 THEN FoldLeft(LAMBDA a, x : a \o <<x, x>>, <<>>, d) ELSE d
                             byte(i) == 16 * e[2*i-1] + e[2*i]
                         IN <<byte(1), byte(2), byte(3)>> \o (IF Len(e) = 8 THEN <<byte(4), byte(4)>> ELSE <<255, 255>>)
    [] c.kind = "tuple" -> <<c.v[1], c.v[2], c.v[3]>> \o (IF Len(c.v) = 4 THEN <<c.v[4], c.v[4]>> ELSE <<255, 255>>)
    [] c.kind = "tuplef" -> <<c.v[1], c.v[2], c.v[3], (c.alpha_pm * 255) \div 1000, (c.alpha_pm * 255 + 999) \div 1000>>
    \* EPS / PDF only: a tuple with float components, each an intensity 0.0 .. 1.0 (an int component is c / 255): c.mb in 1/255 units x 1000
    [] c.kind = "unit" -> <<c.mb[1] \div 1000, c.mb[2] \div 1000, c.mb[3] \div 1000, 255, 255>>
\* the wanted colour in 1/255 units x 1000 (the resolution the EPS / PDF clauses compare with)
Milli(c) == IF c.kind = "unit" THEN c.mb ELSE LET w == ColourOf(c) IN <<w[1] * 1000, w[2] * 1000, w[3] * 1000>>
\* an observed RGBA pixel shows the wanted colour (fully transparent pixels have no colour)
Shows(got, want) == IF want[5] = 0 THEN got[4] = 0
                    ELSE got[1] = want[1] /\ got[2] = want[2] /\ got[3] = want[3] /\ got[4] >= want[4] /\ got[4] <= want[5]

\* SVG prints opacities with two decimals: the alpha byte may be off by 255 * 0.005 < 2
ShowsTol(got, want, t) == IF want[5] = 0 THEN got[4] = 0
                          ELSE got[1] = want[1] /\ got[2] = want[2] /\ got[3] = want[3] /\ got[4] >= want[4] - t /\ got[4] <= want[5] + t

(* ---------------- PNG ---------------- *)
\* any non-interlaced PNG with 8 or fewer bits per sample is understood: colour types 0 (grey), 2 (RGB), 3 (palette), 4 (grey + alpha),
\* 6 (RGBA), all five filter types - the property asks for a well-formed file showing the right pixels, not for one particular encoding
Channels(ct) == CASE ct = 0 -> 1 [] ct = 2 -> 3 [] ct = 3 -> 1 [] ct = 4 -> 2 [] ct = 6 -> 4 [] OTHER -> 0
DepthOK(ct, depth) == CASE ct \in {0} -> depth \in {1, 2, 4, 8} [] ct = 3 -> depth \in {1, 2, 4, 8} [] ct \in {2, 4, 6} -> depth = 8 [] OTHER -> FALSE
PngStride(d) == (d.width * d.depth * Channels(d.ctype) + 7) \div 8
PngBpp(d) == Max2(1, (d.depth * Channels(d.ctype)) \div 8)
AbsI(x) == IF x < 0 THEN -x ELSE x
Paeth(a, b, c) == LET pp == a + b - c pa == AbsI(pp - a) pb == AbsI(pp - b) pc == AbsI(pp - c)
                  IN IF pa <= pb /\ pa <= pc THEN a ELSE IF pb <= pc THEN b ELSE c
UnfilterBpp(lines, stride, bpp) ==   \* filters 0 None, 1 Sub, 2 Up, 3 Average, 4 Paeth
  FoldLeft(LAMBDA acc, ln :
             LET prev == IF acc = <<>> THEN [i \in 1..stride |-> 0] ELSE acc[Len(acc)]
                 cur == CASE ln.ft = 0 -> ln.data
                          [] ln.ft = 2 -> [i \in 1..stride |-> (ln.data[i] + prev[i]) % 256] \o <<>>
                          [] OTHER -> FoldLeft(LAMBDA row, i :
                                         LET a == IF i > bpp THEN row[i - bpp] ELSE 0
                                             b == prev[i]
                                             c == IF i > bpp THEN prev[i - bpp] ELSE 0
                                             pred == CASE ln.ft = 1 -> a [] ln.ft = 3 -> (a + b) \div 2 [] OTHER -> Paeth(a, b, c)
                                         IN Append(row, (ln.data[i] + pred) % 256), <<>>, Iota(stride))
             IN Append(acc, cur), <<>>, lines)
Unfilter(lines, stride) == UnfilterBpp(lines, stride, 1)
Sample(line, x, depth) ==   \* x 0-based, most significant bits first
  LET bit == x * depth byte == line[(bit \div 8) + 1] sh == 8 - depth - (bit % 8)
  IN (byte \div (2^sh)) % (2^depth)
\* RGBA of a palette index / grey sample
PngColour(d, idx) == LET maxs == 2^d.depth - 1 IN
                     IF d.ctype = 0 THEN LET g == (idx * 255) \div maxs IN <<g, g, g, IF d.trns_grey = idx THEN 0 ELSE 255>>
                     ELSE IF idx + 1 > Len(d.plte) THEN <<-1, -1, -1, -1>>
                     ELSE d.plte[idx+1] \o <<IF idx + 1 <= Len(d.trns) THEN d.trns[idx+1] ELSE 255>>
\* RGBA of pixel x (0-based) of an un-filtered row
PngPixel(d, row, x) ==
  CASE d.ctype \in {0, 3} -> PngColour(d, Sample(row, x, d.depth))
    [] d.ctype = 2 -> <<row[3*x + 1], row[3*x + 2], row[3*x + 3], 255>>
    [] d.ctype = 4 -> <<row[2*x + 1], row[2*x + 1], row[2*x + 1], row[2*x + 2]>>
    [] d.ctype = 6 -> <<row[4*x + 1], row[4*x + 2], row[4*x + 3], row[4*x + 4]>>
    [] OTHER -> <<-1, -1, -1, -1>>
PngRows(d) == UnfilterBpp(d.lines, PngStride(d), PngBpp(d))
PngShapeOK(d, w) == LET stride == PngStride(d) IN
                 /\ d.width = w /\ d.height = w /\ Len(d.lines) = d.height /\ DepthOK(d.ctype, d.depth)
                 /\ \A i \in 1..Len(d.lines) : Len(d.lines[i].data) = stride /\ d.lines[i].ft \in 0..4
                 /\ d.leftover = 0
                 /\ (d.ctype = 3 => (Len(d.plte) >= 1 /\ Len(d.plte) <= 2^d.depth /\ Len(d.trns) <= Len(d.plte)))
PngContainerOK(d) == d.sig_ok /\ d.crc_ok /\ d.order_ok /\ d.interlace = 0 /\ d.compression = 0 /\ d.filter = 0 /\ d.trailing = 0
\* o: [matrix, border, scale, dark, light (colour args)], d: projection of the PNG file
PngFails(o, d) ==
  LET M == o.matrix n == Len(M) b == o.border s == o.scale w == (n + 2*b) * s
      stride == PngStride(d)
      container == PngContainerOK(d)
      okshape == /\ d.width = w /\ d.height = w /\ Len(d.lines) = d.height /\ DepthOK(d.ctype, d.depth)
                 /\ \A i \in 1..Len(d.lines) : Len(d.lines[i].data) = stride /\ d.lines[i].ft \in 0..4
                 /\ d.leftover = 0
      okpal == d.ctype = 3 => (Len(d.plte) >= 1 /\ Len(d.plte) <= 2^d.depth /\ Len(d.trns) <= Len(d.plte))
      rows == PngRows(d)
      wd == ColourOf(o.dark) wl == ColourOf(o.light)
      Want(y, x) == IF Cell(M, b, y \div s, x \div s) = 1 THEN wd ELSE wl
      badpix == IF ~(okshape /\ okpal) THEN {} ELSE
                {y \in 0..w-1 : \E x \in 0..w-1 : ~Shows(PngPixel(d, rows[y+1], x), Want(y, x))}
      usedbits == d.width * d.depth * Channels(d.ctype)
      dpiok == IF o.dpi < 0 THEN d.phys = <<>> ELSE d.phys # <<>> /\ d.phys[3] = 1 /\ d.phys[1] = d.phys[2]
                                                   /\ d.phys[1] * 254 >= (o.dpi - 1) * 10000 /\ d.phys[1] * 254 <= (o.dpi + 1) * 10000
  IN {c \in {"container", "dimensions", "palette", "pixels", "dpi"} :
        CASE c = "container" -> ~container
          [] c = "dimensions" -> ~okshape
          [] c = "palette" -> ~okpal
          [] c = "pixels" -> badpix # {}
          [] c = "dpi" -> ~dpiok}

(* ---------------- Netpbm ---------------- *)
\* PBM: d.magic "P4" (packed, MSB first, rows padded to bytes) or "P1" (d.cells: rows of 0/1); 1 = black
PbmFails(o, d) ==
  LET M == o.matrix n == Len(M) b == o.border s == o.scale w == (n + 2*b) * s
      stride == (w + 7) \div 8
      okshape == d.width = w /\ d.height = w /\
                 (IF d.magic = "P4" THEN Len(d.data) = stride * w ELSE Len(d.cells) = w /\ \A y \in 1..w : Len(d.cells[y]) = w)
      Bit(y, x) == IF d.magic = "P4" THEN (d.data[y * stride + (x \div 8) + 1] \div (2^(7 - (x % 8)))) % 2 ELSE d.cells[y+1][x+1]
  IN {c \in {"container", "dimensions", "pixels"} :
        CASE c = "container" -> d.magic \notin {"P1", "P4"} \/ ~d.header_ok
          [] c = "dimensions" -> ~okshape
          [] c = "pixels" -> okshape /\ \E y \in 0..w-1 : \E x \in 0..w-1 : Bit(y, x) # Cell(M, b, y \div s, x \div s)}
\* PAM (P7): d.depth, d.maxval, d.tupltype, d.data (samples, row major)
PamFails(o, d) ==
  LET M == o.matrix n == Len(M) b == o.border s == o.scale w == (n + 2*b) * s
      okshape == d.width = w /\ d.height = w /\ Len(d.data) = w * w * d.depth /\ d.maxval >= 1 /\ d.maxval <= 255
      oktype == CASE d.tupltype = "BLACKANDWHITE" -> d.depth = 1 /\ d.maxval = 1
                  [] d.tupltype = "GRAYSCALE" -> d.depth = 1
                  [] d.tupltype = "GRAYSCALE_ALPHA" -> d.depth = 2
                  [] d.tupltype = "RGB" -> d.depth = 3
                  [] d.tupltype = "RGB_ALPHA" -> d.depth = 4
                  [] OTHER -> FALSE
      S(y, x, k) == d.data[(y * w + x) * d.depth + k]
      \* a sample v of a file with MAXVAL m stands for the intensity v/m; the nearest 8-bit value is compared
      To8(v) == (v * 255 + (d.maxval \div 2)) \div d.maxval
      Pixel(y, x) == CASE d.depth = 1 -> <<To8(S(y,x,1)), To8(S(y,x,1)), To8(S(y,x,1)), 255>>
                       [] d.depth = 2 -> <<To8(S(y,x,1)), To8(S(y,x,1)), To8(S(y,x,1)), To8(S(y,x,2))>>
                       [] d.depth = 3 -> <<To8(S(y,x,1)), To8(S(y,x,2)), To8(S(y,x,3)), 255>>
                       [] d.depth = 4 -> <<To8(S(y,x,1)), To8(S(y,x,2)), To8(S(y,x,3)), To8(S(y,x,4))>>
      wd == ColourOf(o.dark) wl == ColourOf(o.light)
      Want(y, x) == IF Cell(M, b, y \div s, x \div s) = 1 THEN wd ELSE wl
  IN {c \in {"container", "dimensions", "pixels"} :
        CASE c = "container" -> ~(d.header_ok /\ oktype)
          [] c = "dimensions" -> ~okshape
          [] c = "pixels" -> okshape /\ oktype /\ \E y \in 0..w-1 : \E x \in 0..w-1 : ~Shows(Pixel(y, x), Want(y, x))}
\* PPM (P6): d.maxval, d.data (RGB triples); colours per module type (C11) are handled by TypedFails below
PpmFails(o, d) ==
  LET M == o.matrix n == Len(M) b == o.border s == o.scale w == (n + 2*b) * s
      okshape == d.width = w /\ d.height = w /\ Len(d.data) = 3 * w * w /\ d.maxval = 255
      Pixel(y, x) == LET p == 3 * (y * w + x) IN <<d.data[p+1], d.data[p+2], d.data[p+3], 255>>
      wd == ColourOf(o.dark) wl == ColourOf(o.light)
  IN {c \in {"container", "dimensions", "pixels"} :
        CASE c = "container" -> ~d.header_ok
          [] c = "dimensions" -> ~okshape
          [] c = "pixels" -> okshape /\ \E y \in 0..w-1 : \E x \in 0..w-1 :
                                ~Shows(Pixel(y, x), IF Cell(M, b, y \div s, x \div s) = 1 THEN wd ELSE wl)}
\* XBM: d.width, d.height, d.bytes (rows padded to bytes, least significant bit first), 1 = foreground (dark)
XbmFails(o, d) ==
  LET M == o.matrix n == Len(M) b == o.border s == o.scale w == (n + 2*b) * s
      stride == (w + 7) \div 8
      okshape == d.width = w /\ d.height = w /\ Len(d.bytes) = stride * w
      Bit(y, x) == (d.bytes[y * stride + (x \div 8) + 1] \div (2^(x % 8))) % 2
  IN {c \in {"container", "dimensions", "pixels"} :
        CASE c = "container" -> ~d.syntax_ok
          [] c = "dimensions" -> ~okshape
          [] c = "pixels" -> okshape /\ \E y \in 0..w-1 : \E x \in 0..w-1 : Bit(y, x) # Cell(M, b, y \div s, x \div s)}
\* XPM: d.width, d.height, d.ncolors, d.cpp, d.colors (seq of [ch, rgb (<<r,g,b>> or <<>> for None)]), d.rows (seq of seq of char codes)
XpmFails(o, d) ==
  LET M == o.matrix n == Len(M) b == o.border s == o.scale w == (n + 2*b) * s
      okshape == d.width = w /\ d.height = w /\ d.cpp = 1 /\ Len(d.rows) = w /\ \A y \in 1..w : Len(d.rows[y]) = w
                 /\ d.ncolors = Len(d.colors)
      ColourOfChar(ch) == LET S == {i \in 1..Len(d.colors) : d.colors[i].ch = ch} IN
                          IF S = {} THEN <<-1, -1, -1, -1>>
                          ELSE LET e == d.colors[CHOOSE i \in S : TRUE] IN IF e.rgb = <<>> THEN <<0, 0, 0, 0>> ELSE e.rgb \o <<255>>
      wd == ColourOf(o.dark) wl == ColourOf(o.light)
  IN {c \in {"container", "dimensions", "pixels"} :
        CASE c = "container" -> ~d.syntax_ok
          [] c = "dimensions" -> ~okshape
          [] c = "pixels" -> okshape /\ \E y \in 0..w-1 : \E x \in 0..w-1 :
                                ~Shows(ColourOfChar(d.rows[y+1][x+1]), IF Cell(M, b, y \div s, x \div s) = 1 THEN wd ELSE wl)}

(* ---------------- text grids: one cell per module ---------------- *)
\* d.rows: seq of rows of cell codes.  Which code means "dark" is not prescribed: it is fixed by the quiet zone (light) or,
\* without border, by the finder corner (dark); d.dark_code / d.light_code when the caller chose the characters (TXT).
GridFails(o, d) ==
  LET M == o.matrix n == Len(M) b == o.border w == n + 2*b
      okshape == Len(d.rows) = w /\ \A y \in 1..w : Len(d.rows[y]) = w
      corner == d.rows[1][1]
      darkc == IF d.dark_code >= 0 THEN d.dark_code ELSE IF b = 0 THEN corner ELSE -1
      lightc == IF d.light_code >= 0 THEN d.light_code ELSE IF b > 0 THEN corner ELSE -1
      Is(y, x, v) == LET ch == d.rows[y+1][x+1] IN
                     IF v = 1 THEN (IF darkc >= 0 THEN ch = darkc ELSE ch # lightc) ELSE (IF lightc >= 0 THEN ch = lightc ELSE ch # darkc)
      codes == {d.rows[y][x] : y \in 1..Len(d.rows), x \in 1..(IF Len(d.rows) > 0 THEN Len(d.rows[1]) ELSE 0)}
  IN {c \in {"container", "dimensions", "cells"} :
        CASE c = "container" -> ~d.syntax_ok
          [] c = "dimensions" -> ~okshape
          [] c = "cells" -> okshape /\ (Cardinality(codes) > 2 \/ \E y \in 0..w-1 : \E x \in 0..w-1 : ~Is(y, x, Cell(M, b, y, x)))}
\* compact terminal: every character shows two cells (top, bottom); d.rows: seq of rows of <<top, bottom>> ink flags (1 = ink)
\* for the half-block glyphs; ink polarity fixed as above
CompactFails(o, d) ==
  LET M == o.matrix n == Len(M) b == o.border w == n + 2*b h == (w + 1) \div 2
      okshape == Len(d.rows) = h /\ \A y \in 1..h : Len(d.rows[y]) = w
      ink_top_left == d.rows[1][1][1]
      ink_is_dark == IF b = 0 THEN ink_top_left = 1 ELSE ink_top_left = 0
      Val(y, x) == LET pr == d.rows[(y \div 2) + 1][x+1] ink == pr[(y % 2) + 1] IN IF ink_is_dark THEN ink ELSE 1 - ink
  IN {c \in {"container", "dimensions", "cells"} :
        CASE c = "container" -> ~d.syntax_ok
          [] c = "dimensions" -> ~okshape
          [] c = "cells" -> okshape /\ \E y \in 0..w-1 : \E x \in 0..w-1 : Val(y, x) # Cell(M, b, y, x)}

RasterFails(o) ==
  CASE o.kind = "png" -> PngFails(o, o.doc)
    [] o.kind = "pbm" -> PbmFails(o, o.doc)
    [] o.kind = "pam" -> PamFails(o, o.doc)
    [] o.kind = "ppm" -> PpmFails(o, o.doc)
    [] o.kind = "xbm" -> XbmFails(o, o.doc)
    [] o.kind = "xpm" -> XpmFails(o, o.doc)
    [] o.kind \in {"txt", "ans"} -> GridFails(o, o.doc)
    [] o.kind = "compact" -> CompactFails(o, o.doc)
=============================================================================
