"""Shared machinery: paths, TLC runner (sharded trace validation), verdict parsing, evidence, known findings."""
import json
import os
import re
import subprocess
import sys
import time
import hashlib
import shutil
from concurrent.futures import ThreadPoolExecutor

VERIF = os.path.dirname(os.path.dirname(os.path.abspath(__file__)))
REPO = os.environ.get('VERIF_REPO', '/repo')
SPEC = os.path.join(VERIF, 'spec')
WORK = os.environ.get('VERIF_WORK') or os.path.join(VERIF, 'work')
EVID = os.environ.get('VERIF_EVID') or os.path.join(VERIF, 'evidence')
TLA_CP = '/opt/veriftools/tla/tla2tools.jar:/opt/veriftools/tla/CommunityModules-deps.jar'
NCPU = int(os.environ.get('VERIF_NCPU') or min(16, os.cpu_count() or 4))


class MachineryError(Exception):
    """The checker itself failed (TLC crash, parse error, timeout): exit status 2, never a pass."""


def seed():
    try:
        return int(os.environ.get('VERIF_SEED', '0'))
    except ValueError:
        return 0


def workdir(pid, fresh=False):
    d = os.path.join(WORK, pid)
    if fresh and os.path.isdir(d):
        shutil.rmtree(d, ignore_errors=True)
    os.makedirs(d, exist_ok=True)
    return d


MEM_LIMIT_GB = int(os.environ.get('VERIF_MEM_GB', '20'))


def limit_memory():
    """soft address-space limit for this process and the workers forked from it: a runaway implementation (e.g. a cache that grows with
    every call) ends in a MemoryError - an observable outcome - instead of the kernel killing the harness; TLC subprocesses lift the
    limit again (run_tlc)"""
    import resource
    soft, hard = resource.getrlimit(resource.RLIMIT_AS)
    want = MEM_LIMIT_GB << 30
    if soft == resource.RLIM_INFINITY or soft > want:
        resource.setrlimit(resource.RLIMIT_AS, (want, hard))


def _unlimit_memory():
    import resource
    soft, hard = resource.getrlimit(resource.RLIMIT_AS)
    resource.setrlimit(resource.RLIMIT_AS, (hard, hard))


def use_repo():
    """Import segno from /repo's current working tree."""
    limit_memory()
    if sys.path[0] != REPO:
        sys.path.insert(0, REPO)
    os.environ.setdefault('HEUER_SEGNO_VERIF', '1')
    import segno  # noqa
    assert os.path.realpath(segno.__file__).startswith(os.path.realpath(REPO) + os.sep), segno.__file__
    return segno


_STATS_RE = re.compile(r'(\d+) states generated, (\d+) distinct states found')
_VERDICT_RE = re.compile(r'<<\s*"VERDICT",\s*"((?:[^"\\]|\\.)*)"\s*>>', re.S)
_VECTOR_RE = re.compile(r'<<\s*"VECTOR",\s*"((?:[^"\\]|\\.)*)"\s*>>', re.S)


def _unescape(tla_string_body):
    # TLC prints strings with \" and \\ escapes; the body is itself JSON text
    return json.loads(json.loads('"' + tla_string_body.replace('\n', '') + '"'))


def run_tlc(module, cfg=None, env=None, workers=1, metadir=None, timeout=1800, xmx='3g', extra=(), coverage=False):
    """Run TLC on spec/<module>.tla, return (stdout, stats). Raises MachineryError on crash / timeout."""
    metadir = metadir or os.path.join(WORK, 'meta', module + '_' + str(os.getpid()))
    shutil.rmtree(metadir, ignore_errors=True)
    os.makedirs(metadir, exist_ok=True)
    cmd = ['java', '-XX:+UseSerialGC', '-Xmx' + xmx, '-Xss64m', '-cp', TLA_CP, 'tlc2.TLC',
           '-workers', str(workers), '-metadir', metadir, '-noGenerateSpecTE', '-config', cfg or (module + '.cfg')]
    if coverage:
        cmd += ['-coverage', '1']
    cmd += list(extra) + [module + '.tla']
    e = dict(os.environ)
    e.update(env or {})
    t0 = time.time()
    try:
        p = subprocess.run(cmd, cwd=SPEC, env=e, stdout=subprocess.PIPE, stderr=subprocess.STDOUT, timeout=timeout, preexec_fn=_unlimit_memory)
    except subprocess.TimeoutExpired:
        raise MachineryError(f'TLC timed out after {timeout}s on {module}')
    finally:
        shutil.rmtree(metadir, ignore_errors=True)
    out = p.stdout.decode('utf-8', 'replace')
    m = _STATS_RE.findall(out)
    stats = {'states': int(m[-1][1]) if m else 0, 'transitions': int(m[-1][0]) if m else 0, 'wall_s': time.time() - t0,
             'exit': p.returncode}
    return out, stats


def tlc_ok(out, stats):
    return stats['exit'] == 0 and 'Model checking completed. No error has been found.' in out


def validate_observations(pid, trace_module, observations, shards=None, timeout=3000, xmx='3g', tag='trace'):
    """code -> spec: let TLC judge every observation. Returns (verdicts by tid, stats).

    Observations are sharded over several single-worker TLC processes (so PrintT output never interleaves);
    a shard whose verdict count does not match, or whose TLC run did not end cleanly, is a machinery failure.
    """
    n = len(observations)
    if n == 0:
        return {}, {'states': 0, 'transitions': 0, 'wall_s': 0.0, 'runs': 0}
    wd = workdir(pid)
    for i, o in enumerate(observations):
        o['tid'] = i + 1
    # serialise every observation once; pack them into trace files of bounded size (a TLC process holds the whole file as one
    # value), at least `shards` files so that all cores are used, largest observations first
    blobs = [(json.dumps({kk: vv for kk, vv in o.items() if not kk.startswith('_')}, separators=(',', ':')), o['tid']) for o in observations]
    blobs.sort(key=lambda b: -len(b[0]))
    total = sum(len(b[0]) for b in blobs)
    max_bytes = int(os.environ.get('VERIF_TRACE_BYTES', 12_000_000))
    if shards is None:
        shards = max(1, min(NCPU, n))
    nfiles = max(shards, -(-total // max_bytes))
    nfiles = min(nfiles, n)
    files = [[] for _ in range(nfiles)]
    sizes = [0] * nfiles
    for b in blobs:                      # greedy: next blob into the currently smallest file
        k = sizes.index(min(sizes))
        files[k].append(b)
        sizes[k] += len(b[0])
    files = [f for f in files if f]

    def run(k):
        path = os.path.join(wd, f'{tag}_{k}.json')
        with open(path, 'w') as f:
            f.write('[' + ','.join(b[0] for b in files[k]) + ']')
        try:
            out, st = run_tlc(trace_module, env={'TRACE_FILE': path}, workers=1,
                              metadir=os.path.join(wd, f'meta_{tag}_{k}'), timeout=timeout, xmx=xmx)
        finally:
            if len(files) > 2 * NCPU:      # many files (thorough tiers): do not keep gigabytes of traces
                try:
                    os.remove(path)
                except OSError:
                    pass
        if not tlc_ok(out, st):
            with open(os.path.join(wd, f'{tag}_{k}.out'), 'w') as f:
                f.write(out)
            raise MachineryError(f'TLC failed on shard {k} of {trace_module} (exit {st["exit"]}); see {wd}/{tag}_{k}.out\n' + out[-3000:])
        vs = [_unescape(m) for m in _VERDICT_RE.findall(out)]
        # the Judge action of an observation may be evaluated more than once by TLC; de-duplicate by tid
        byid = {}
        for v in vs:
            byid[v['tid']] = v
        want = {b[1] for b in files[k]}
        if set(byid) != want:
            with open(os.path.join(wd, f'{tag}_{k}.out'), 'w') as f:
                f.write(out)
            raise MachineryError(f'shard {k}: {len(byid)} verdicts for {len(want)} observations; see {wd}/{tag}_{k}.out')
        return byid, st

    verdicts = {}
    stats = {'states': 0, 'transitions': 0, 'wall_s': 0.0, 'runs': len(files)}
    t0 = time.time()
    with ThreadPoolExecutor(max_workers=min(NCPU, len(files))) as ex:
        for byid, st in ex.map(run, range(len(files))):
            verdicts.update(byid)
            stats['states'] += st['states']
            stats['transitions'] += st['transitions']
    stats['wall_s'] = time.time() - t0
    return verdicts, stats


def parse_vectors(out):
    return [_unescape(m) for m in _VECTOR_RE.findall(out)]


def digest(obj):
    return hashlib.sha256(json.dumps(obj, sort_keys=True, default=str).encode()).hexdigest()[:16]


# ---------------------------------------------------------------- known findings
def load_known_findings():
    p = os.path.join(VERIF, 'known_findings.json')
    if not os.path.exists(p):
        return []
    with open(p) as f:
        return json.load(f)


def write_evidence(pid, tier, level, coverage, wall_s, violations, assumptions):
    os.makedirs(EVID, exist_ok=True)
    ev = {'property_id': pid, 'tier': tier, 'seed': seed(), 'level': level, 'coverage': coverage,
          'assumptions': assumptions, 'wall_s': round(wall_s, 2), 'violations': violations}
    tmp = os.path.join(EVID, pid + '.json.tmp')
    with open(tmp, 'w') as f:
        json.dump(ev, f, indent=1, default=str)
    os.replace(tmp, os.path.join(EVID, pid + '.json'))
    return ev


def _call_indexed(a):
    fn, i, x = a
    return i, fn(x)


def pmap(pool, fn, tasks, chunksize=1, stall_s=2400):
    """pool.map that cannot hang: multiprocessing.Pool never notices a worker that was killed while it held a task (e.g. by the kernel for
    lack of memory) and waits for its result for ever.  Results are collected as they arrive; if none arrives for `stall_s` seconds the run
    ends as a machinery failure (exit status 2), never as a verdict."""
    import gc
    import multiprocessing as mp
    tasks = list(tasks)
    out = [None] * len(tasks)
    # the parent accumulates gigabytes of results while it keeps forking workers: without freezing, a full garbage collection in a freshly
    # forked worker walks over (and thereby copies) the whole inherited heap - 16 workers x 6 GB is more than the machine has
    gc.collect()
    gc.freeze()
    it = pool.imap_unordered(_call_indexed, [(fn, i, x) for i, x in enumerate(tasks)], chunksize=chunksize)
    try:
        for k in range(len(tasks)):
            try:
                i, r = it.next(timeout=stall_s)
            except mp.TimeoutError:
                raise MachineryError(f'no result from the worker pool for {stall_s} s: a worker process was probably killed (out of memory?)')
            out[i] = r
            if k % 256 == 255:
                gc.freeze()
    finally:
        gc.unfreeze()
    return out


class LimitExceeded(Exception):
    pass


_LIMIT_HITS = [0]


def _limit_alarm(signum, frame):
    _LIMIT_HITS[0] += 1
    raise LimitExceeded('no result within the time limit (120 s; 5 s after three time-outs in the same worker process)')


def limited(a):
    """(fn, x) -> fn(x) under a time limit: a call into the implementation that does not come back is an outcome of that call (the drivers
    record exceptions as outcomes), not a check that never ends"""
    import signal
    fn, x = a
    old = signal.signal(signal.SIGALRM, _limit_alarm)
    signal.alarm(120 if _LIMIT_HITS[0] < 3 else 5)
    try:
        return fn(x)
    finally:
        signal.alarm(0)
        signal.signal(signal.SIGALRM, old)
