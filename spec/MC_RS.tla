------------------------------- MODULE MC_RS -------------------------------
(***************************************************************************)
(* Design model for C03: the fault environment.  A block of the reference  *)
(* encoder (data codewords + RSRem) is corrupted by the environment action *)
(* Corrupt (one codeword at a time, budgeted), then the bounded-distance   *)
(* decoder (Berlekamp-Massey / Chien / Forney) runs.  Invariants:          *)
(*   Restored     within the budget floor(ec/2) the decoder returns the    *)
(*                original block                                           *)
(*   NeverSilent  beyond the budget it never reports the original block    *)
(*                as "no error" (syndromes of a corrupted block are        *)
(*                non-zero as long as fewer than ec+1 codewords differ)    *)
(* plus the field axioms of GF(256) on the whole field (FieldAxioms).      *)
(***************************************************************************)
EXTENDS GF256, TLC

CONSTANTS Blocks,      \* set of <<data codewords, ec>> pairs to exercise
          Values,      \* error values XORed onto a codeword
          MaxErrors    \* errors injected at most

VARIABLES blk, cw, nerr, touched
vars == <<blk, cw, nerr, touched>>
Encode(b) == b[1] \o RSRem(b[1], b[2])
Init == /\ blk \in Blocks /\ cw = Encode(blk) /\ nerr = 0 /\ touched = {}
Corrupt == /\ nerr < MaxErrors
           /\ \E i \in 1..Len(cw) : \E x \in Values :
                /\ i \notin touched /\ (touched # {} => i > CHOOSE m \in touched : \A k \in touched : m >= k)   \* positions in increasing order
                /\ cw' = [cw EXCEPT ![i] = @ ^^ x] /\ touched' = touched \cup {i}
           /\ nerr' = nerr + 1 /\ UNCHANGED blk
Next == Corrupt
Spec == Init /\ [][Next]_vars
Budget == blk[2] \div 2
Restored == nerr <= Budget => LET r == RSCorrect(cw, blk[2]) IN r.ok /\ r.cw = Encode(blk) /\ r.nerr = nerr
NeverSilent == nerr >= 1 /\ nerr <= blk[2] => ~RSClean(cw, blk[2])
CleanWhenUntouched == nerr = 0 => RSClean(cw, blk[2])
\* field axioms, evaluated once in the initial state
FieldAxioms == nerr = 0 =>
  /\ \A a \in 1..255 : GFMul(a, 1) = a /\ GFMul(a, GFInv(a)) = 1
  /\ \A a \in 0..255 : \A b \in 0..255 : GFMul(a, b) = GFMul(b, a)
  /\ \A a \in {0, 1, 2, 3, 29, 76, 142, 255} : \A b \in 0..255 : \A c \in {0, 1, 7, 128, 200, 255} :
        /\ GFMul(a, GFMul(b, c)) = GFMul(GFMul(a, b), c)
        /\ GFMul(a, b ^^ c) = GFMul(a, b) ^^ GFMul(a, c)
=============================================================================
