------------------------------ MODULE Trace_Seq ------------------------------
(***************************************************************************)
(* Trace validation of make_sequence observations (C08, Structured Append).*)
(* An observation holds the arguments, the message bytes the content       *)
(* stands for (text -> bytes policy of C01) and ALL returned symbols.      *)
(* TLC decodes every symbol with the reference decoder and evaluates the   *)
(* clauses of C08 on the whole sequence.                                   *)
(***************************************************************************)
EXTENDS SymCheck, Json, IOUtils, TLCExt

Obs == JsonDeserialize(IOEnv.TRACE_FILE)
N == Len(Obs)
VARIABLES tid, judged
Init == tid \in 1..N /\ judged = FALSE

XorAll(bytes) == FoldLeft(LAMBDA x, b : x ^^ b, 0, bytes)

(* Named deviation Dev_SeqEstimateOnly (known finding KF-C08-1): with a requested version encode_sequence() takes the number of
   symbols from an estimate that ignores the mode / character count indicators of the additional symbols, divides the message
   evenly and does not check the chunks against the capacity.  The deviation explains an observation iff the symbol count is
   exactly that estimate, at least one evenly divided chunk does not fit the requested version at the requested level, every
   symbol whose chunk fits decodes to exactly its chunk, and only symbols whose chunk does not fit are damaged. *)
CeilDiv(x, y) == (x + y - 1) \div y
MsgMode(o) == IF o.args.mode # "none" THEN o.args.mode ELSE AutoMode(ClassOfBytes(o.message, FALSE, FALSE))
Units(o) == IF MsgMode(o) \in {"kanji", "hanzi"} THEN Len(o.message) \div 2 ELSE Len(o.message)
EstimatedCount(o) ==
  LET v == o.args.version e == IF o.args.error = "-" THEN "L" ELSE o.args.error m == MsgMode(o)
      \* (the estimate counts 7 bits for the final group of a numeric message also when there is none)
      est == IF m = "numeric" THEN 10 * (Units(o) \div 3) + (IF Units(o) % 3 = 1 THEN 4 ELSE 7) ELSE DataLen(m, Units(o))
      bits == 4 + CCBits(v, m) + 20 + est
      cnt == CeilDiv(bits, CapT(v, e))
  IN CeilDiv(bits + 20 * (cnt - 1), CapT(v, e))
ChunkUnits(o, n, i) == LET k == Units(o) \div n r == Units(o) % n IN k + (IF i <= r THEN 1 ELSE 0)      \* i = 1..n
ChunkStart(o, n, i) == LET k == Units(o) \div n r == Units(o) % n IN (i-1) * k + (IF i-1 <= r THEN i-1 ELSE r)
DevSeqEstimateOnly(o, decs) ==
  LET n == Len(o.syms) v == o.args.version e == IF o.args.error = "-" THEN "L" ELSE o.args.error m == MsgMode(o)
      u == IF m \in {"kanji", "hanzi"} THEN 2 ELSE 1
      over(i) == 20 + 4 + (IF m = "hanzi" THEN 4 ELSE 0) + CCBits(v, m) + DataLen(m, ChunkUnits(o, n, i)) > CapT(v, e)
      chunk(i) == SubSeq(o.message, u * ChunkStart(o, n, i) + 1, u * (ChunkStart(o, n, i) + ChunkUnits(o, n, i)))
      intact(i) == decs[i].d.parse = "end" /\ decs[i].d.payload = chunk(i)
  IN /\ v # 99 /\ o.args.symbol_count = -1 /\ v >= 1 /\ n >= 2 /\ n <= 16
     /\ n = EstimatedCount(o)
     /\ \E i \in 1..n : over(i)
     /\ \A i \in 1..n : (~over(i) => intact(i)) /\ (~intact(i) => over(i))

SeqVerdict(o) ==
  LET syms == o.syms n == Len(syms)
      shape(i) == ValidShape(syms[i].matrix) /\ Values01(syms[i].matrix)
      allshape == \A i \in 1..n : shape(i)
  IN IF n = 0 \/ ~allshape THEN [tid |-> o.tid, fails |-> {<<"C08", "symbols_well_formed">>}, devs |-> {}, facts |-> [n |-> n]]
  ELSE
  LET decs == [i \in 1..n |-> Decode(syms[i].matrix)] \o <<>>
      pseudo(i) == [res |-> syms[i], exp |-> [parts |-> <<>>, eci |-> FALSE]]
      segs(i) == decs[i].d.segs
      hasSA(i) == Len(segs(i)) >= 1 /\ segs(i)[1].kind = "sa"
      payload == FoldLeft(LAMBDA acc, i : acc \o decs[i].d.payload, <<>>, Iota(n))
      want == XorAll(o.message)
      fails == {c \in {"count_range", "count_as_requested", "version_as_requested", "all_qr", "each_symbol_valid", "data_fits_capacity",
                       "header_position_total", "parity_identical", "parity_is_xor_of_message", "no_stray_header", "reassembly"} :
         CASE c = "count_range" -> ~(n >= 1 /\ n <= 16)
           [] c = "count_as_requested" -> o.args.symbol_count # -1 /\ o.args.version = 99 /\ n # o.args.symbol_count
           [] c = "version_as_requested" -> o.args.version # 99 /\ o.args.symbol_count = -1 /\ \E i \in 1..n : decs[i].v # o.args.version
           [] c = "all_qr" -> \E i \in 1..n : decs[i].v < 1
           [] c = "each_symbol_valid" -> \E i \in 1..n : (C02Fails(pseudo(i), decs[i]) \ {"meta_mode"}) # {} \/ ~decs[i].d.rs_ok
           [] c = "data_fits_capacity" -> \E i \in 1..n : decs[i].d.parse # "end"
           [] c = "header_position_total" -> n > 1 /\ \E i \in 1..n : ~(hasSA(i) /\ segs(i)[1].idx = i - 1 /\ segs(i)[1].total = n - 1)
           [] c = "parity_identical" -> n > 1 /\ \E i \in 1..n : hasSA(i) /\ hasSA(1) /\ segs(i)[1].parity # segs(1)[1].parity
           [] c = "parity_is_xor_of_message" -> n > 1 /\ \E i \in 1..n : hasSA(i) /\ segs(i)[1].parity # want
           [] c = "no_stray_header" -> \E i \in 1..n : \E k \in 2..Len(segs(i)) : segs(i)[k].kind = "sa"
           [] c = "reassembly" -> payload # o.message}
      \* C07 on sequences: without a requested mode every symbol carries the first applicable mode of the whole message
      modefails == {c \in {"sequence_mode_first_applicable", "sequence_mode_reported"} :
                      CASE c = "sequence_mode_first_applicable" ->
                             o.args.mode = "none" /\ \E i \in 1..n : \E k \in 1..Len(segs(i)) : segs(i)[k].kind = "data" /\ segs(i)[k].mode # MsgMode(o)
                        [] c = "sequence_mode_reported" ->
                             \E i \in 1..n : LET ds == DataSegs(segs(i)) IN Len(ds) = 1 /\ syms[i].mode # ds[1].mode}
  IN [tid |-> o.tid, fails |-> {<<"C08", c>> : c \in fails} \cup {<<"C07", c>> : c \in modefails},
      devs |-> {x \in {"Dev_SeqEstimateOnly"} : fails # {} /\ fails \subseteq {"data_fits_capacity", "reassembly"} /\ DevSeqEstimateOnly(o, decs)},
      facts |-> [n |-> n, versions |-> [i \in 1..n |-> decs[i].v], levels |-> [i \in 1..n |-> decs[i].fmt.level],
                 modes |-> [i \in 1..n |-> [k \in 1..Len(segs(i)) |-> IF segs(i)[k].kind = "data" THEN segs(i)[k].mode ELSE segs(i)[k].kind]],
                 parse |-> [i \in 1..n |-> decs[i].d.parse], msglen |-> Len(o.message), got |-> Len(payload),
                 parity |-> [i \in 1..n |-> IF hasSA(i) THEN segs(i)[1].parity ELSE -1], want_parity |-> want]]

Judge == /\ ~judged /\ judged' = TRUE /\ tid' = tid
         /\ PrintT(<<"VERDICT", ToJson(SeqVerdict(Obs[tid]))>>)
Next == Judge
AllJudged == TLCGet("distinct") = 2 * N
=============================================================================
