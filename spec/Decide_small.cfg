CONSTANTS
  Scope = "small"
  BVersions <- NoV
  SmallMaxN = 24
  SmallVersions <- SmallV
  VSels <- AllVSels
  Slim = FALSE
  Variants <- AllVariants
SPECIFICATION Spec
CHECK_DEADLOCK FALSE
INVARIANT C04_Smallest
INVARIANT C04_Requested
INVARIANT C04_OverflowIff
INVARIANT C05_NotBelow
INVARIANT C05_NoHInMicro
INVARIANT C05_BoostMax
INVARIANT C05_NoBoostExact
INVARIANT C05_BoostKeepsVersion
INVARIANT C07_Auto
INVARIANT C07_Requested
INVARIANT C07_Refused
INVARIANT C14_Excluded
