----------------------------- MODULE Trace_Args -----------------------------
(* Trace validation of factory calls against Args.tla (C14): the observed outcome must be one the documentation allows,
   and an accepted alternative spelling must give the same symbol as the canonical spelling.  The canonical call is made the other
   way round (all parameters positionally in the documented order, or all by keyword with the omitted ones given as their documented
   default): an accepted request whose canonical form is refused or gives another symbol fails the clause. *)
EXTENDS Args, IOUtils, TLCExt

Obs == JsonDeserialize(IOEnv.TRACE_FILE)
N == Len(Obs)
VARIABLES tid, judged
tvars == <<tid, judged>>

TraceInit == /\ tid \in 1..N /\ judged = FALSE
             /\ a = Obs[tid].a /\ pc = "version" /\ ver = "?" /\ refusals = {} /\ lookup = FALSE
InSeq(x, s) == \E i \in 1..Len(s) : s[i] = x
OutcomeClass(oc) == IF oc.status = "ok" THEN "ok"
                    ELSE IF oc.status = "timeout" THEN "timeout"
                    ELSE IF InSeq("ValueError", oc.mro) THEN "ValueError"
                    ELSE IF InSeq("LookupError", oc.mro) THEN "LookupError" ELSE "other"
Verdict(o) ==
  LET cls == OutcomeClass(o.outcome)
      fails == {c \in {"outcome_allowed", "no_endless_loop", "same_symbol_as_canonical_spelling", "excluded_combination_refused"} :
                  CASE c = "outcome_allowed" -> cls \notin Allowed /\ cls # "timeout"
                    [] c = "no_endless_loop" -> cls = "timeout"
                    [] c = "same_symbol_as_canonical_spelling" -> cls = "ok" /\ o.canon.status # "none" /\ (o.canon.status # "ok" \/ o.canon.matrix # o.matrix)
                    [] c = "excluded_combination_refused" -> cls = "ok" /\ refusals # {} }
  IN [tid |-> o.tid, fails |-> {<<"C14", c>> : c \in fails}, devs |-> {},
      facts |-> [allowed |-> Allowed, why |-> refusals, seen |-> cls, exc |-> o.outcome.exc]]
Judge == /\ pc = "done" /\ ~judged /\ judged' = TRUE /\ UNCHANGED <<vars, tid>>
         /\ PrintT(<<"VERDICT", ToJson(Verdict(Obs[tid]))>>)
TraceNext == (Next /\ UNCHANGED tvars) \/ Judge
AllJudged == TLCGet("distinct") >= 6 * N
=============================================================================
