----------------------------- MODULE ISOTables -----------------------------
(***************************************************************************)
(* ISO/IEC 18004:2015 symbol geometry and tables, written independently of *)
(* segno/consts.py.  Versions: 1..40 for QR Code, -3..0 for Micro QR Code  *)
(* M1..M4.  Levels: "L","M","Q","H" and "-" (M1, error detection only).    *)
(*                                                                         *)
(* Derived, not transcribed: symbol size, alignment pattern centres        *)
(* (Annex E construction), the number of modules of the encoding region,   *)
(* hence total codewords and remainder bits; format words (BCH(15,5)) and  *)
(* version words (Golay(18,6)) by polynomial division.                     *)
(* Transcribed from the standard (not from segno): Table 9 (EC codewords   *)
(* per block, number of blocks), Tables 2/3 (indicators), Table 5          *)
(* (alphanumeric values), terminator lengths, AIM ECI assignment numbers.  *)
(***************************************************************************)
EXTENDS GF256, TLC

At(M, r, c) == M[r+1][c+1]          \* 0-based access into a matrix given as tuple of rows

IsMicro(v) == v < 1
Size(v) == IF v >= 1 THEN 17 + 4*v ELSE 9 + 2*(v+4)
VersionOfSize(n) == IF n < 21 THEN (n - 9) \div 2 - 4 ELSE (n - 17) \div 4
ValidSize(n) == n \in {11, 13, 15, 17} \/ (n >= 21 /\ n <= 177 /\ (n - 17) % 4 = 0)
AllVersions == <<-3,-2,-1,0>> \o Iota(40)
VersionName(v) == IF v >= 1 THEN ToString(v) ELSE <<"M1","M2","M3","M4">>[v+4]
HalfCW(v) == v = -3 \/ v = -1       \* final data codeword is 4 bits long

(* ---------------- alignment patterns (Annex E) ---------------- *)
AlignPos(v) ==
  IF v <= 1 THEN <<>> ELSE
  LET n == v \div 7 + 2
      step == IF v = 32 THEN 26 ELSE ((v*4 + n*2 + 1) \div (n*2 - 2)) * 2
  IN [k \in 1..n |-> IF k = 1 THEN 6 ELSE Size(v) - 7 - (n-k)*step] \o <<>>

\* index of the alignment centre within +-2 of coordinate x (0-based), or 0
NearIdx(ap, n) == [x \in 1..n |-> FoldLeft(LAMBDA a, i : IF x-1 >= ap[i]-2 /\ x-1 <= ap[i]+2 THEN i ELSE a, 0, Iota(Len(ap)))] \o <<>>
InAlign(ap, near, r, c) ==
  LET i == near[r+1] j == near[c+1] k == Len(ap) IN
  i > 0 /\ j > 0 /\ ~(i = 1 /\ j = 1) /\ ~(i = 1 /\ j = k) /\ ~(i = k /\ j = 1)

\* geometry context of a version, computed once per symbol
Geo(v) == LET n == Size(v) ap == AlignPos(v) IN [v |-> v, n |-> n, ap |-> ap, near |-> NearIdx(ap, n)]

(* ---------------- classification of every module ---------------- *)
\* "finder" | "separator" | "timing" | "alignment" | "format" | "version" | "dark" | "data"
ClassG(g, r, c) ==
  LET v == g.v n == g.n IN
  IF IsMicro(v) THEN
       IF r <= 6 /\ c <= 6 THEN "finder"
       ELSE IF r <= 7 /\ c <= 7 THEN "separator"
       ELSE IF r = 0 \/ c = 0 THEN "timing"
       ELSE IF (r = 8 /\ c <= 8) \/ (c = 8 /\ r <= 8) THEN "format"
       ELSE "data"
  ELSE
       IF (r <= 6 /\ c <= 6) \/ (r <= 6 /\ c >= n-7) \/ (r >= n-7 /\ c <= 6) THEN "finder"
       ELSE IF (r <= 7 /\ c <= 7) \/ (r <= 7 /\ c >= n-8) \/ (r >= n-8 /\ c <= 7) THEN "separator"
       ELSE IF InAlign(g.ap, g.near, r, c) THEN "alignment"
       ELSE IF r = 6 \/ c = 6 THEN "timing"
       ELSE IF r = n-8 /\ c = 8 THEN "dark"
       ELSE IF (r = 8 /\ (c <= 8 \/ c >= n-8)) \/ (c = 8 /\ (r <= 8 \/ r >= n-7)) THEN "format"
       ELSE IF v >= 7 /\ ((r <= 5 /\ c >= n-11 /\ c <= n-9) \/ (c <= 5 /\ r >= n-11 /\ r <= n-9)) THEN "version"
       ELSE "data"
ModuleClass(v, r, c) == ClassG(Geo(v), r, c)
IsFuncG(g, r, c) == ClassG(g, r, c) # "data"

\* prescribed value of a function-pattern module (finder, separator, timing, alignment, dark)
FinderRing(dr, dc) == \* dr, dc in 0..6 relative to the finder's upper-left corner
  LET d == Max2(IF dr <= 3 THEN 3 - dr ELSE dr - 3, IF dc <= 3 THEN 3 - dc ELSE dc - 3) IN IF d = 2 THEN 0 ELSE 1
PatternValueG(g, cls, r, c) ==
  LET n == g.n IN
  CASE cls = "finder" -> FinderRing(IF r <= 6 THEN r ELSE r - (n-7), IF c <= 6 THEN c ELSE c - (n-7))
    [] cls = "separator" -> 0
    [] cls = "timing" -> (IF r = 6 \/ (IsMicro(g.v) /\ r = 0) THEN (c + 1) % 2 ELSE (r + 1) % 2)
    [] cls = "alignment" -> LET ci == g.ap[g.near[r+1]] cj == g.ap[g.near[c+1]]
                                dr == IF r >= ci THEN r - ci ELSE ci - r
                                dc == IF c >= cj THEN c - cj ELSE cj - c
                            IN IF Max2(dr, dc) = 1 THEN 0 ELSE 1
    [] cls = "dark" -> 1

(* ---------------- codeword capacity from geometry ---------------- *)
DataModuleCount(v) ==
  LET g == Geo(v) n == g.n IN
  FoldLeft(LAMBDA a, r : a + Cardinality({c \in 0..n-1 : ~IsFuncG(g, r-1, c)}), 0, Iota(n))
\* closed form of the same count (finder + separators, timing, alignment minus their overlap with timing, format incl. dark
\* module, version information); ISOSelfCheck proves it equal to the geometric count for all 44 versions
DataModules(v) ==
  LET n == Size(v) IN
  IF IsMicro(v) THEN n*n - 64 - 2*(n - 8) - 15
  ELSE LET k == IF v = 1 THEN 0 ELSE v \div 7 + 2
           align == IF k >= 2 THEN 25 * (k*k - 3) - 10 * (k - 2) ELSE 0
       IN n*n - 192 - 2*(n - 16) - align - 31 - (IF v >= 7 THEN 36 ELSE 0)
MicroTotal(v) == <<5,10,17,24>>[v+4]        \* M1/M3: the last data codeword has 4 bits
TotalCodewords(v) == IF IsMicro(v) THEN MicroTotal(v) ELSE DataModules(v) \div 8
RemainderBits(v) == IF IsMicro(v) THEN 0 ELSE DataModules(v) % 8

(* ---------------- ISO Table 9 ---------------- *)
EccPerBlock == [L |-> <<7,10,15,20,26,18,20,24,30,18,20,24,26,30,22,24,28,30,28,28,28,28,30,30,26,28,30,30,30,30,30,30,30,30,30,30,30,30,30,30>>,
                M |-> <<10,16,26,18,24,16,18,22,22,26,30,22,22,24,24,28,28,26,26,26,26,28,28,28,28,28,28,28,28,28,28,28,28,28,28,28,28,28,28,28>>,
                Q |-> <<13,22,18,26,18,24,18,22,20,24,28,26,24,20,30,24,28,28,26,30,28,30,30,30,30,28,30,30,30,30,30,30,30,30,30,30,30,30,30,30>>,
                H |-> <<17,28,22,16,22,28,26,26,24,28,24,28,22,24,24,30,28,28,26,28,30,24,30,30,30,30,30,30,30,30,30,30,30,30,30,30,30,30,30,30>>]
NumBlocks ==   [L |-> <<1,1,1,1,1,2,2,2,2,4,4,4,4,4,6,6,6,6,7,8,8,9,9,10,12,12,12,13,14,15,16,17,18,19,19,20,21,22,24,25>>,
                M |-> <<1,1,1,2,2,4,4,4,5,5,5,8,9,9,10,10,11,13,14,16,17,17,18,20,21,23,25,26,28,29,31,33,35,37,38,40,43,45,47,49>>,
                Q |-> <<1,1,2,2,4,4,6,6,8,8,8,10,12,16,12,17,16,18,21,20,23,23,25,27,29,34,34,35,38,40,43,45,48,51,53,56,59,62,65,68>>,
                H |-> <<1,1,2,4,4,4,5,6,8,8,11,11,16,16,18,16,19,21,25,25,25,34,30,32,35,37,40,42,45,48,51,54,57,60,63,66,70,74,77,81>>]
MicroEc(v, e) == CASE v = -3 -> 2 [] v = -2 -> (IF e = "L" THEN 5 ELSE 6) [] v = -1 -> (IF e = "L" THEN 6 ELSE 8)
                   [] v = 0 -> (IF e = "L" THEN 8 ELSE IF e = "M" THEN 10 ELSE 14)

Levels == <<"L","M","Q","H">>
LevelIdx(e) == CASE e = "L" -> 1 [] e = "M" -> 2 [] e = "Q" -> 3 [] e = "H" -> 4 [] OTHER -> 0
HasLevel(v, e) == IF v = -3 THEN e = "-" ELSE IF v \in {-2,-1} THEN e \in {"L","M"} ELSE IF v = 0 THEN e \in {"L","M","Q"} ELSE e \in {"L","M","Q","H"}
LevelsOf(v) == IF v = -3 THEN <<"-">> ELSE IF v \in {-2,-1} THEN <<"L","M">> ELSE IF v = 0 THEN <<"L","M","Q">> ELSE Levels

\* block layout: sequence of <<number of data codewords, number of ec codewords>>, shorter blocks first
Layout(v, e) ==
  LET total == TotalCodewords(v) IN
  IF IsMicro(v) THEN << <<total - MicroEc(v, e), MicroEc(v, e)>> >>
  ELSE LET nb == NumBlocks[e][v] ec == EccPerBlock[e][v]
           short == nb - (total % nb) slen == total \div nb
       IN [b \in 1..nb |-> IF b <= short THEN <<slen - ec, ec>> ELSE <<slen + 1 - ec, ec>>] \o <<>>
DataCW(v, e) == FoldLeft(LAMBDA a, b : a + b[1], 0, Layout(v, e))
\* data capacity in bits (ISO Table 7)
Cap(v, e) == 8 * DataCW(v, e) - (IF HalfCW(v) THEN 4 ELSE 0)
CapTable == [k \in 1..44 |-> LET v == AllVersions[k] IN [e \in {"L","M","Q","H","-"} |-> IF HasLevel(v, e) THEN Cap(v, e) ELSE -1]] \o <<>>
CapT(v, e) == CapTable[v+4][e]

(* ---------------- indicators (Tables 2, 3), terminator, alphanumeric set ---------------- *)
Modes == <<"numeric","alphanumeric","byte","kanji","hanzi">>
CCBits(v, mode) ==
  IF IsMicro(v) THEN CASE mode = "numeric" -> v + 6 [] mode = "alphanumeric" -> v + 5 [] mode = "byte" -> v + 5 [] mode = "kanji" -> v + 4 [] OTHER -> 0
  ELSE LET rng == IF v <= 9 THEN 1 ELSE IF v <= 26 THEN 2 ELSE 3 IN
       CASE mode = "numeric" -> <<10,12,14>>[rng] [] mode = "alphanumeric" -> <<9,11,13>>[rng]
         [] mode = "byte" -> <<8,16,16>>[rng] [] mode \in {"kanji","hanzi"} -> <<8,10,12>>[rng]
ModeBits(v) == IF v >= 1 THEN 4 ELSE v + 3
ModeInd(v, mode) == IF v >= 1 THEN (CASE mode = "numeric" -> 1 [] mode = "alphanumeric" -> 2 [] mode = "byte" -> 4 [] mode = "kanji" -> 8 [] mode = "hanzi" -> 13)
                    ELSE (CASE mode = "numeric" -> 0 [] mode = "alphanumeric" -> 1 [] mode = "byte" -> 2 [] mode = "kanji" -> 3)
ModeOf(v, ind) == IF v >= 1 THEN (CASE ind = 1 -> "numeric" [] ind = 2 -> "alphanumeric" [] ind = 4 -> "byte" [] ind = 8 -> "kanji"
                                    [] ind = 13 -> "hanzi" [] ind = 7 -> "eci" [] ind = 3 -> "sa" [] ind = 0 -> "term" [] OTHER -> "bad")
                  ELSE IF ind <= 3 THEN <<"numeric","alphanumeric","byte","kanji">>[ind+1] ELSE "bad"      \* M4 has 3 indicator bits: 4..7 are undefined
ModeOK(v, mode) == IF v >= 1 THEN TRUE ELSE CASE mode = "numeric" -> TRUE [] mode = "alphanumeric" -> v >= -2 [] mode \in {"byte","kanji"} -> v >= -1 [] OTHER -> FALSE
TermLen(v) == IF v >= 1 THEN 4 ELSE <<3,5,7,9>>[v+4]
AlnumChars == <<48,49,50,51,52,53,54,55,56,57,65,66,67,68,69,70,71,72,73,74,75,76,77,78,79,80,81,82,83,84,85,86,87,88,89,90,32,36,37,42,43,45,46,47,58>>
AlnumSet == {AlnumChars[i] : i \in 1..45}
AlnumVal(ch) == FoldLeft(LAMBDA a, i : IF AlnumChars[i] = ch THEN i - 1 ELSE a, -1, Iota(45))
DataLen(mode, cnt) == CASE mode = "numeric" -> 10*(cnt \div 3) + <<0,4,7>>[(cnt % 3)+1]
                         [] mode = "alphanumeric" -> 11*(cnt \div 2) + 6*(cnt % 2)
                         [] mode = "byte" -> 8*cnt
                         [] mode \in {"kanji","hanzi"} -> 13*cnt

(* ---------------- classification of content bytes and the automatic mode (C07) ---------------- *)
IsNumB(b) == Len(b) >= 1 /\ \A i \in 1..Len(b) : b[i] >= 48 /\ b[i] <= 57
IsAlnumB(b) == Len(b) >= 1 /\ \A i \in 1..Len(b) : b[i] \in AlnumSet
\* a valid double-byte Shift JIS character inside 8140-9FFC / E040-EBBF: lead 81-9F / E0-EB, trail 40-7E / 80-FC
KanjiPair(hi, lo) == LET code == hi * 256 + lo IN
                     /\ ((code >= 33088 /\ code <= 40956) \/ (code >= 57408 /\ code <= 60351))
                     /\ lo >= 64 /\ lo <= 252 /\ lo # 127
IsKanjiB(b) == Len(b) >= 2 /\ Len(b) % 2 = 0 /\ \A k \in 1..(Len(b) \div 2) : KanjiPair(b[2*k-1], b[2*k])
\* GB2312 two-byte characters A1A1-AAFE / B0A1-FAFE with second byte A1-FE (GB/T 18284 Hanzi mode)
HanziPair(hi, lo) == LET code == hi * 256 + lo IN
                     /\ ((code >= 41377 /\ code <= 43774) \/ (code >= 45217 /\ code <= 64254))
                     /\ lo >= 161 /\ lo <= 254
IsHanziB(b) == Len(b) >= 2 /\ Len(b) % 2 = 0 /\ \A k \in 1..(Len(b) \div 2) : HanziPair(b[2*k-1], b[2*k])
\* class of the bytes of a part; hanziReq: mode hanzi was requested; nondefault: byte encoding is not ISO-8859-1
ClassOfBytes(b, hanziReq, nondefault) ==
  IF hanziReq /\ IsHanziB(b) THEN "hanzi"
  ELSE IF IsNumB(b) THEN "num" ELSE IF IsAlnumB(b) THEN "alnum" ELSE IF IsKanjiB(b) THEN "kanji"
  ELSE IF nondefault THEN "x8" ELSE "l1"

\* content class -> first applicable mode of numeric, alphanumeric, kanji, byte (hanzi is never chosen automatically)
AutoMode(cls) == CASE cls = "num" -> "numeric" [] cls = "alnum" -> "alphanumeric" [] cls = "kanji" -> "kanji" [] OTHER -> "byte"

(* ---------------- format / version information ---------------- *)
BitsToInt(bs) == FoldLeft(LAMBDA a, b : 2*a + b, 0, bs)     \* MSB first
IntToBits(x, k) == [i \in 1..k |-> (x \div (2^(k-i))) % 2] \o <<>>
\* remainder of data(x)*x^deg modulo generator g (degree deg) over GF(2)
PolyRem2(x, nbits, g, deg) ==
  FoldLeft(LAMBDA a, i : IF (a \div (2^(nbits + deg - i))) % 2 = 1 THEN a ^^ (g * 2^(nbits - i)) ELSE a,
           x * 2^deg, Iota(nbits))
FormatWord(data5, micro) == (data5 * 1024 + PolyRem2(data5, 5, 1335, 10)) ^^ (IF micro THEN 17477 ELSE 21522)
VersionWord(v) == v * 4096 + PolyRem2(v, 6, 7973, 12)
QRLevelOfInd(ind) == <<"M","L","H","Q">>[ind+1]
QRIndOfLevel(e) == CASE e = "M" -> 0 [] e = "L" -> 1 [] e = "H" -> 2 [] e = "Q" -> 3
\* Micro symbol numbers (ISO Table 13)
MicroSym == <<  <<-3,"-">>, <<-2,"L">>, <<-2,"M">>, <<-1,"L">>, <<-1,"M">>, <<0,"L">>, <<0,"M">>, <<0,"Q">> >>
MicroSymNum(v, e) == FoldLeft(LAMBDA a, k : IF MicroSym[k] = <<v, e>> THEN k - 1 ELSE a, -1, Iota(8))
FormatWordFor(v, e, mask) == IF IsMicro(v) THEN FormatWord(MicroSymNum(v, e) * 4 + mask, TRUE)
                             ELSE FormatWord(QRIndOfLevel(e) * 8 + mask, FALSE)
FormatDecode(w, micro) ==
  LET d == (w ^^ (IF micro THEN 17477 ELSE 21522)) \div 1024 IN
  IF micro THEN [valid |-> FormatWord(d, TRUE) = w, level |-> MicroSym[(d \div 4)+1][2], mver |-> MicroSym[(d \div 4)+1][1], mask |-> d % 4]
           ELSE [valid |-> FormatWord(d, FALSE) = w, level |-> QRLevelOfInd(d \div 8), mver |-> 1, mask |-> d % 8]
Popcount(x, k) == FoldLeft(LAMBDA a, i : a + ((x \div (2^(i-1))) % 2), 0, Iota(k))

(* ---------------- data mask conditions (Table 10) ---------------- *)
MaskCond(q, r, c) ==
  CASE q = 0 -> (r + c) % 2 = 0
    [] q = 1 -> r % 2 = 0
    [] q = 2 -> c % 3 = 0
    [] q = 3 -> (r + c) % 3 = 0
    [] q = 4 -> ((r \div 2) + (c \div 3)) % 2 = 0
    [] q = 5 -> ((r*c) % 2) + ((r*c) % 3) = 0
    [] q = 6 -> (((r*c) % 2) + ((r*c) % 3)) % 2 = 0
    [] q = 7 -> (((r+c) % 2) + ((r*c) % 3)) % 2 = 0
MaskBit(v, m, r, c) == MaskCond(IF IsMicro(v) THEN <<1,4,6,7>>[m+1] ELSE m, r, c)
NumMasks(v) == IF IsMicro(v) THEN 4 ELSE 8

(* ---------------- AIM ECI assignment numbers (codec name as python canonicalises it) ---------------- *)
EciTable == << <<"cp437", 2>>, <<"iso8859-1", 3>>, <<"iso8859-2", 4>>, <<"iso8859-3", 5>>, <<"iso8859-4", 6>>, <<"iso8859-5", 7>>,
               <<"iso8859-6", 8>>, <<"iso8859-7", 9>>, <<"iso8859-8", 10>>, <<"iso8859-9", 11>>, <<"iso8859-10", 12>>,
               <<"iso8859-11", 13>>, <<"iso8859-13", 15>>, <<"iso8859-14", 16>>, <<"iso8859-15", 17>>, <<"iso8859-16", 18>>,
               <<"shift_jis", 20>>, <<"cp1250", 21>>, <<"cp1251", 22>>, <<"cp1252", 23>>, <<"cp1256", 24>>,
               <<"utf-16-be", 25>>, <<"utf-8", 26>>, <<"ascii", 27>>, <<"big5", 28>>, <<"gb2312", 29>>, <<"euc_kr", 30>>, <<"gbk", 31>>, <<"gb18030", 32>> >>
\* 0 and 1 are the pre-2000 default designators of cp437 / ISO-8859-1 and are accepted as alternatives
EciNumbers(name) == LET S == {EciTable[i][2] : i \in {k \in 1..Len(EciTable) : EciTable[k][1] = name}} IN
                    IF name = "cp437" THEN S \cup {0} ELSE IF name = "iso8859-1" THEN S \cup {1}
                    ELSE IF name \in {"gbk", "gb18030"} THEN S \cup {29} ELSE S   \* 29 covered GBK / GB 18030 before AIM split them

(* ---------------- self checks ---------------- *)
\* (parameterised so that TLC does not evaluate it eagerly as a constant in every run)
ISOSelfCheck(dummy) ==
  /\ \A k \in 1..44 : DataModules(AllVersions[k]) = DataModuleCount(AllVersions[k])
  /\ \A v \in 1..40 : \A e \in {"L","M","Q","H"} :
        LET lay == Layout(v, e) IN
        /\ FoldLeft(LAMBDA a, b : a + b[1] + b[2], 0, lay) = TotalCodewords(v)
        /\ \A b \in 1..Len(lay) : lay[b][1] > 0
  /\ \A v \in 1..40 : RemainderBits(v) = (IF v \in 2..6 THEN 7 ELSE IF v \in 14..20 \/ v \in 28..34 THEN 3 ELSE IF v \in 21..27 THEN 4 ELSE 0)
  /\ [k \in 1..8 |-> Cap(MicroSym[k][1], MicroSym[k][2])] = <<20, 40, 32, 84, 68, 128, 112, 80>>
  /\ DataModules(-3) = 36 /\ DataModules(-2) = 80 /\ DataModules(-1) = 132 /\ DataModules(0) = 192
  /\ TotalCodewords(1) = 26 /\ TotalCodewords(7) = 196 /\ TotalCodewords(40) = 3706
  /\ Cap(1, "L") = 152 /\ Cap(40, "L") = 23648 /\ Cap(40, "H") = 10208
  /\ \A v \in 2..40 : \A e \in {"L","M","Q","H"} : Cap(v, e) > Cap(v-1, e)
  /\ \A v \in 1..40 : Cap(v,"L") > Cap(v,"M") /\ Cap(v,"M") > Cap(v,"Q") /\ Cap(v,"Q") > Cap(v,"H")
  /\ AlignPos(2) = <<6, 18>> /\ AlignPos(7) = <<6, 22, 38>> /\ AlignPos(32) = <<6, 34, 60, 86, 112, 138>>
  /\ AlignPos(36) = <<6, 24, 50, 76, 102, 128, 154>> /\ AlignPos(40) = <<6, 30, 58, 86, 114, 142, 170>>
  /\ FormatWord(0, FALSE) = 21522 /\ FormatWord(8, FALSE) = 30660 /\ FormatWord(0, TRUE) = 17477
  /\ VersionWord(7) = 31892 /\ VersionWord(40) = 167017
  /\ \A a \in 0..31 : \A b \in 0..31 : a < b => Popcount(FormatWord(a, FALSE) ^^ FormatWord(b, FALSE), 15) >= 7
  /\ \A a \in 7..40 : \A b \in 7..40 : a < b => Popcount(VersionWord(a) ^^ VersionWord(b), 18) >= 8
=============================================================================
