------------------------------- MODULE Codec -------------------------------
(***************************************************************************)
(* ISO/IEC 18004 reference decoder and reference encoder as pure TLA+      *)
(* operators over matrices (tuples of rows of 0/1).                        *)
(*                                                                         *)
(*   Decode(M)      format information, unmasking, zig-zag read-out,       *)
(*                  4-bit codeword of M1/M3, de-interleaving by Table 9,   *)
(*                  Reed-Solomon syndromes, bit stream parser (all modes,  *)
(*                  ECI, Structured Append, Hanzi)                         *)
(*   Penalty, MicroScore, Remask, BestMask     ISO 7.8.3 mask evaluation   *)
(*   IsoTail        terminator / padding after the last segment (7.4.9/10) *)
(*   EncodeSymbol   the same steps forwards (7.4 - 7.10)                   *)
(***************************************************************************)
EXTENDS ISOTables

(* ---------------- reading format / version information ---------------- *)
FormatCopy1(M, v) ==
  IF IsMicro(v)
  THEN BitsToInt([k \in 1..15 |-> IF k <= 8 THEN At(M, 8, k) ELSE At(M, 16-k, 8)])     \* bits 14..7 at (8,1..8); 6..0 at (7..1, 8)
  ELSE BitsToInt([k \in 1..15 |->                                                       \* k = 1 is bit 14
         IF k <= 6 THEN At(M, 8, k-1) ELSE IF k = 7 THEN At(M, 8, 7) ELSE IF k = 8 THEN At(M, 8, 8)
         ELSE IF k = 9 THEN At(M, 7, 8) ELSE At(M, 15-k, 8)])
FormatCopy2(M, v) ==
  LET n == Size(v) IN
  BitsToInt([k \in 1..15 |-> IF k <= 7 THEN At(M, n-k, 8) ELSE At(M, 8, n-16+k)])       \* bits 14..8 at rows n-1..n-7; 7..0 at cols n-8..n-1
VersionCopyLL(M, v) == LET n == Size(v) IN BitsToInt([k \in 1..18 |-> LET b == 18-k IN At(M, n-11 + (b % 3), b \div 3)])
VersionCopyUR(M, v) == LET n == Size(v) IN BitsToInt([k \in 1..18 |-> LET b == 18-k IN At(M, b \div 3, n-11 + (b % 3))])
\* positions <<r, c>> of format bit i (14 = most significant) in copy 1 / copy 2
FormatPos1(v, i) == IF IsMicro(v) THEN (IF i >= 7 THEN <<8, 15 - i>> ELSE <<i + 1, 8>>)
                    ELSE (IF i >= 9 THEN <<8, 14 - i>> ELSE IF i = 8 THEN <<8, 7>> ELSE IF i = 7 THEN <<8, 8>> ELSE IF i = 6 THEN <<7, 8>> ELSE <<i, 8>>)
FormatPos2(v, i) == LET n == Size(v) IN IF i >= 8 THEN <<n - 15 + i, 8>> ELSE <<8, n - 1 - i>>

(* ---------------- the encoding region in placement order ---------------- *)
DataPositionsG(g) ==
  LET n == g.n v == g.v
      npairs == (n-1) \div 2
      Right(k) == LET x == n - 1 - 2*(k-1) IN IF ~IsMicro(v) /\ x <= 6 THEN x - 1 ELSE x
      Col(k) == LET right == Right(k) up == (k % 2 = 1)
                    cells == [i \in 1..2*n |-> LET vert == (i-1) \div 2 z == (i-1) % 2
                                                   r == IF up THEN n-1-vert ELSE vert
                                               IN <<r, right - z>>]
                IN SelectSeq(cells, LAMBDA p : ~IsFuncG(g, p[1], p[2]))
  IN FoldLeft(LAMBDA acc, k : acc \o Col(k), <<>>, Iota(npairs))
DataPositions(v) == DataPositionsG(Geo(v))

RawBitsG(M, g, mask) ==
  LET pos == DataPositionsG(g) IN
  [i \in 1..Len(pos) |-> LET p == pos[i] IN (At(M, p[1], p[2]) + (IF MaskBit(g.v, mask, p[1], p[2]) THEN 1 ELSE 0)) % 2] \o <<>>

Val(B, p, k) == FoldLeft(LAMBDA a, i : 2*a + B[p+i], 0, Iota(k))    \* k bits after position p, MSB first
\* codeword sequence as read; M1/M3: the last data codeword is 4 bits (taken as high nibble)
Codewords(B, v, e) ==
  LET total == TotalCodewords(v) ndata == DataCW(v, e)
  IN IF HalfCW(v)
     THEN [i \in 1..total |-> IF i < ndata THEN Val(B, 8*(i-1), 8)
                              ELSE IF i = ndata THEN Val(B, 8*(i-1), 4) * 16
                              ELSE Val(B, 8*(i-1) - 4, 8)] \o <<>>
     ELSE [i \in 1..total |-> Val(B, 8*(i-1), 8)] \o <<>>

\* de-interleave into blocks << data codewords, ec codewords >>
Deinterleave(cw, lay) ==
  LET nb == Len(lay)
      ndata == FoldLeft(LAMBDA a, b : a + b[1], 0, lay)
      mind == lay[1][1]
      short == Cardinality({b \in 1..nb : lay[b][1] = mind})
      DPos(b, i) == IF i <= mind THEN (i-1)*nb + b ELSE mind*nb + (b - short)
      EPos(b, i) == ndata + (i-1)*nb + b
  IN [b \in 1..nb |-> << [i \in 1..lay[b][1] |-> cw[DPos(b, i)]] \o <<>>, [i \in 1..lay[b][2] |-> cw[EPos(b, i)]] \o <<>> >>] \o <<>>
InterleaveBlocks(blocks) == \* inverse: blocks << data, ec >> -> codeword sequence
  LET nb == Len(blocks)
      maxd == blocks[nb][1]
      dpart == FoldLeft(LAMBDA a, i : a \o SelectSeq([b \in 1..nb |-> IF i <= Len(blocks[b][1]) THEN blocks[b][1][i] ELSE -1], LAMBDA x : x >= 0),
                        <<>>, Iota(Len(maxd)))
      epart == FoldLeft(LAMBDA a, i : a \o [b \in 1..nb |-> blocks[b][2][i]], <<>>, Iota(Len(blocks[1][2])))
  IN dpart \o epart

BytesToBits(bytes) == FoldLeft(LAMBDA a, x : a \o IntToBits(x, 8), <<>>, bytes)
DataBits(blocks, v) == \* concatenated data codewords as bits (M1/M3: the last 4 bits do not exist)
  LET bits == BytesToBits(FoldLeft(LAMBDA a, b : a \o b[1], <<>>, blocks))
  IN IF HalfCW(v) THEN SubSeq(bits, 1, Len(bits) - 4) ELSE bits

(* ---------------- bit stream parser ---------------- *)
SegBytes(B, p, mode, cnt) == \* payload bytes of a segment whose data starts after position p
  CASE mode = "numeric" ->
         LET full == cnt \div 3 rest == cnt % 3
             grp(i) == LET x == Val(B, p + 10*(i-1), 10) IN <<48 + (x \div 100), 48 + ((x \div 10) % 10), 48 + (x % 10)>>
             tail == IF rest = 0 THEN <<>> ELSE IF rest = 1 THEN <<48 + Val(B, p + 10*full, 4)>>
                     ELSE LET x == Val(B, p + 10*full, 7) IN <<48 + (x \div 10), 48 + (x % 10)>>
         IN FoldLeft(LAMBDA a, i : a \o grp(i), <<>>, Iota(full)) \o tail
    [] mode = "alphanumeric" ->
         LET full == cnt \div 2
             ch(x) == IF x < 45 THEN AlnumChars[x + 1] ELSE 256       \* 256: not a character (invalid group)
             grp(i) == LET x == Val(B, p + 11*(i-1), 11) IN <<ch(x \div 45), ch(x % 45)>>
             tail == IF cnt % 2 = 0 THEN <<>> ELSE <<ch(Val(B, p + 11*full, 6))>>
         IN FoldLeft(LAMBDA a, i : a \o grp(i), <<>>, Iota(full)) \o tail
    [] mode = "byte" -> [i \in 1..cnt |-> Val(B, p + 8*(i-1), 8)] \o <<>>
    [] mode = "kanji" ->
         FoldLeft(LAMBDA a, i : LET x == Val(B, p + 13*(i-1), 13)
                                    y == (x \div 192) * 256 + (x % 192)
                                    code == IF y + 33088 <= 40956 THEN y + 33088 ELSE y + 49472
                                IN a \o <<code \div 256, code % 256>>, <<>>, Iota(cnt))
    [] mode = "hanzi" ->
         FoldLeft(LAMBDA a, i : LET x == Val(B, p + 13*(i-1), 13)
                                    y == (x \div 96) * 256 + (x % 96)
                                    code == IF y + 41377 <= 43774 THEN y + 41377 ELSE y + 42657
                                IN a \o <<code \div 256, code % 256>>, <<>>, Iota(cnt))

\* Parser state: [p |-> bits consumed, segs |-> segments, st |-> "run" | "end" | "bad"]
\* A segment is [kind |-> "data", mode, count, bytes, at] | [kind |-> "eci", num, at] | [kind |-> "sa", idx, total, parity, at]
RECURSIVE Parse(_,_,_,_)
Parse(B, v, cap, s) ==
  IF s.st # "run" THEN s ELSE
  LET p == s.p mb == ModeBits(v) IN
  IF cap - p < mb + (IF IsMicro(v) THEN CCBits(v, "numeric") ELSE 0) THEN [s EXCEPT !.st = "end"] ELSE
  LET ind == Val(B, p, mb) mode == ModeOf(v, ind) IN
  IF mode = "term" THEN [s EXCEPT !.st = "end"]
  ELSE IF mode = "bad" THEN [s EXCEPT !.st = "bad"]
  ELSE IF mode = "eci" THEN
       (IF cap - p < 12 \/ B[p+5] = 1 THEN [s EXCEPT !.st = "bad"]
        ELSE Parse(B, v, cap, [s EXCEPT !.p = p + 12, !.segs = Append(@, [kind |-> "eci", num |-> Val(B, p+4, 8), at |-> p])]))
  ELSE IF mode = "sa" THEN
       (IF cap - p < 20 THEN [s EXCEPT !.st = "bad"]
        ELSE Parse(B, v, cap, [s EXCEPT !.p = p + 20, !.segs = Append(@, [kind |-> "sa", idx |-> Val(B, p+4, 4), total |-> Val(B, p+8, 4), parity |-> Val(B, p+12, 8), at |-> p])]))
  ELSE
    LET sub == IF mode = "hanzi" THEN 4 ELSE 0
        cb == CCBits(v, mode) IN
    IF cap - p < mb + sub + cb THEN [s EXCEPT !.st = "bad"] ELSE
    LET cnt == Val(B, p + mb + sub, cb)
        dstart == p + mb + sub + cb
        dl == DataLen(mode, cnt) IN
    IF IsMicro(v) /\ mode = "numeric" /\ cnt = 0 THEN [s EXCEPT !.st = "end"]    \* Micro terminator (all zero)
    ELSE IF cap - dstart < dl THEN [s EXCEPT !.st = "bad"]
    ELSE IF mode = "hanzi" /\ Val(B, p + mb, 4) # 1 THEN [s EXCEPT !.st = "bad"]
    ELSE Parse(B, v, cap, [s EXCEPT !.p = dstart + dl,
                                    !.segs = Append(@, [kind |-> "data", mode |-> mode, count |-> cnt, bytes |-> SegBytes(B, dstart, mode, cnt), at |-> p])])

ParseBits(B, v) == Parse(B, v, Len(B), [p |-> 0, segs |-> <<>>, st |-> "run"])
Payload(segs) == FoldLeft(LAMBDA a, sg : IF sg.kind = "data" THEN a \o sg.bytes ELSE a, <<>>, segs)
DataSegs(segs) == SelectSeq(segs, LAMBDA sg : sg.kind = "data")

(* ---------------- full decode ---------------- *)
\* decode under a given (version, level, mask) claim
DecodeAs(M, v, e, mask) ==
  LET g == Geo(v)
      B == RawBitsG(M, g, mask)
      cw == Codewords(B, v, e)
      lay == Layout(v, e)
      blocks == Deinterleave(cw, lay)
      dbits == DataBits(blocks, v)
      st == ParseBits(dbits, v)
  IN [nraw |-> Len(B), cw |-> cw, lay |-> lay, blocks |-> blocks,
      rs_ok |-> \A b \in 1..Len(blocks) : RSClean(blocks[b][1] \o blocks[b][2], lay[b][2]),
      rem_zero |-> \A i \in (8 * TotalCodewords(v) - (IF HalfCW(v) THEN 4 ELSE 0) + 1)..Len(B) : B[i] = 0,
      dbits |-> dbits, parse |-> st.st, endp |-> st.p, segs |-> st.segs, payload |-> Payload(st.segs)]

Decode(M) ==
  LET n == Len(M) micro == n < 21
      v0 == VersionOfSize(n)
      f1 == FormatCopy1(M, v0)
      fd == FormatDecode(f1, micro)
      v == IF micro THEN fd.mver ELSE v0
      d == DecodeAs(M, v, fd.level, fd.mask)
  IN [v |-> v, size_ok |-> n = Size(v), f1 |-> f1, fmt |-> fd,
      fmt2_ok |-> (micro \/ FormatCopy2(M, v) = f1),
      ver_ok |-> (v < 7 \/ (VersionCopyLL(M, v) = VersionWord(v) /\ VersionCopyUR(M, v) = VersionWord(v))),
      d |-> d]

(* ---------------- mask evaluation (ISO 7.8.3) ---------------- *)
RunScore(line) ==
  LET res == FoldLeft(LAMBDA st, b : IF b = st[1] THEN <<b, st[2]+1, st[3]>>
                                      ELSE <<b, 1, st[3] + (IF st[2] >= 5 THEN st[2]-2 ELSE 0)>>,
                      <<2, 0, 0>>, line)
  IN res[3] + (IF res[2] >= 5 THEN res[2]-2 ELSE 0)
IsPat(line, k) == line[k] = 1 /\ line[k+1] = 0 /\ line[k+2] = 1 /\ line[k+3] = 1 /\ line[k+4] = 1 /\ line[k+5] = 0 /\ line[k+6] = 1
Qual(line, k) == LET n == Len(line) L(j) == j < 1 \/ j > n \/ line[j] = 0 IN
                 (L(k-1) /\ L(k-2) /\ L(k-3) /\ L(k-4)) \/ (L(k+7) /\ L(k+8) /\ L(k+9) /\ L(k+10))
\* ISO: every occurrence of 1:1:3:1:1 with four light modules (or the symbol edge) on a side scores 40
N3Iso(line) == 40 * Cardinality({k \in 1..Len(line)-6 : IsPat(line, k) /\ Qual(line, k)})
\* named deviation Dev_N3SkipOverlap: scan left to right, after a qualifying hit continue at k+7, otherwise at k+4
N3SkipOverlap(line) ==
  LET n == Len(line)
      res == FoldLeft(LAMBDA st, k : IF k < st[1] \/ ~IsPat(line, k) THEN st
                                     ELSE IF Qual(line, k) THEN <<k+7, st[2]+40>> ELSE <<k+4, st[2]>>,
                      <<1, 0>>, Iota(IF n >= 7 THEN n-6 ELSE 0))
  IN res[2]
Transpose(M) == LET n == Len(M) IN [c \in 1..n |-> [r \in 1..n |-> M[r][c]] \o <<>>] \o <<>>
PenaltyParts(M, N3(_)) ==
  LET n == Len(M)
      cols == Transpose(M)
      n1 == FoldLeft(LAMBDA a, k : a + RunScore(M[k]) + RunScore(cols[k]), 0, Iota(n))
      n2 == 3 * FoldLeft(LAMBDA a, r : a + Cardinality({c \in 1..n-1 : M[r][c] = M[r][c+1] /\ M[r][c] = M[r+1][c] /\ M[r][c] = M[r+1][c+1]}), 0, Iota(n-1))
      n3 == FoldLeft(LAMBDA a, k : a + N3(M[k]) + N3(cols[k]), 0, Iota(n))
      dark == FoldLeft(LAMBDA a, r : a + FoldLeft(LAMBDA x, y : x + y, 0, M[r]), 0, Iota(n))
      dev == IF dark * 2 >= n*n THEN dark*2 - n*n ELSE n*n - dark*2       \* |dark/n^2 - 1/2| * 2 n^2
      n4 == 10 * ((dev * 10) \div (n*n))                                   \* 10 per full 5 %
  IN <<n1, n2, n3, n4>>
Penalty(M, N3(_)) == LET p == PenaltyParts(M, N3) IN p[1] + p[2] + p[3] + p[4]
MicroScore(M) ==
  LET n == Len(M)
      s1 == FoldLeft(LAMBDA a, r : a + M[r][n], 0, [k \in 1..n-1 |-> k+1])   \* right column except row 0
      s2 == FoldLeft(LAMBDA a, c : a + M[n][c], 0, [k \in 1..n-1 |-> k+1])   \* bottom row except column 0
  IN IF s1 <= s2 THEN s1*16 + s2 ELSE s2*16 + s1
\* the symbol as it is evaluated: masked with pattern `to` instead of `from`, format / version areas (incl. the
\* dark module position, reserved with the format area) still light
RemaskG(M, g, from, to) ==
  LET n == g.n v == g.v IN
  [r \in 1..n |-> [c \in 1..n |->
      LET cls == ClassG(g, r-1, c-1) IN
      IF cls = "data" THEN (M[r][c] + (IF MaskBit(v, from, r-1, c-1) THEN 1 ELSE 0) + (IF MaskBit(v, to, r-1, c-1) THEN 1 ELSE 0)) % 2
      ELSE IF cls \in {"format", "version", "dark"} THEN 0 ELSE M[r][c]] \o <<>>] \o <<>>
Remask(M, v, from, to) == RemaskG(M, Geo(v), from, to)
BestOf(scores, micro) == \* lowest-numbered optimum (0-based)
  LET k == Len(scores)
      opt == FoldLeft(LAMBDA a, s : IF micro THEN Max2(a, s) ELSE Min2(a, s), scores[1], scores)
  IN FoldLeft(LAMBDA a, i : IF a = -1 /\ scores[i] = opt THEN i - 1 ELSE a, -1, Iota(k))
MaskScores(M, v, from, N3(_)) ==
  LET g == Geo(v) IN
  [m \in 1..NumMasks(v) |-> LET X == RemaskG(M, g, from, m-1) IN IF IsMicro(v) THEN MicroScore(X) ELSE Penalty(X, N3)] \o <<>>

(* ---------------- terminator and padding (ISO 7.4.9 / 7.4.10) ---------------- *)
PadCW(i) == IF i % 2 = 1 THEN <<1,1,1,0,1,1,0,0>> ELSE <<0,0,0,1,0,0,0,1>>
\* the bits that follow the last segment, which ends at bit p, up to the data capacity cap
IsoTail(v, cap, p) ==
  LET t == Min2(cap - p, TermLen(v))
      q == p + t
      nb == IF q % 8 = 0 \/ q = cap THEN q ELSE Min2(8 * ((q \div 8) + 1), cap)
      full == (cap - nb) \div 8
      pads == FoldLeft(LAMBDA a, i : a \o PadCW(i), <<>>, Iota(full))
  IN Zeros(nb - p) \o pads \o Zeros(cap - nb - 8*full)
\* named deviation Dev_PadBitsWhenAligned: a whole zero codeword is added although the terminated stream is aligned
TailPadBitsWhenAligned(v, cap, p) ==
  LET t == Min2(cap - p, TermLen(v))
      q == p + t
      nb == IF HalfCW(v) THEN q ELSE IF q % 8 = 0 THEN Min2(q + 8, cap) ELSE Min2(8 * ((q \div 8) + 1), cap)
      full == IF HalfCW(v) THEN 0 ELSE (cap - nb) \div 8
      pads == FoldLeft(LAMBDA a, i : a \o PadCW(i), <<>>, Iota(full))
  IN Zeros(nb - p) \o pads \o Zeros(cap - nb - 8*full)

(* ---------------- reference encoder ---------------- *)
\* a segment to encode: [mode, bytes] plus optional headers given as already parsed records (see Parse)
EncodeData(mode, bytes) ==
  CASE mode = "numeric" ->
         LET n == Len(bytes) full == n \div 3 rest == n % 3
             d(i) == bytes[i] - 48
             grp(i) == IntToBits(100*d(3*i-2) + 10*d(3*i-1) + d(3*i), 10)
             tail == IF rest = 0 THEN <<>> ELSE IF rest = 1 THEN IntToBits(d(n), 4) ELSE IntToBits(10*d(n-1) + d(n), 7)
         IN FoldLeft(LAMBDA a, i : a \o grp(i), <<>>, Iota(full)) \o tail
    [] mode = "alphanumeric" ->
         LET n == Len(bytes) full == n \div 2
             grp(i) == IntToBits(45*AlnumVal(bytes[2*i-1]) + AlnumVal(bytes[2*i]), 11)
             tail == IF n % 2 = 0 THEN <<>> ELSE IntToBits(AlnumVal(bytes[n]), 6)
         IN FoldLeft(LAMBDA a, i : a \o grp(i), <<>>, Iota(full)) \o tail
    [] mode = "byte" -> BytesToBits(bytes)
    [] mode = "kanji" ->
         FoldLeft(LAMBDA a, i : LET code == bytes[2*i-1]*256 + bytes[2*i]
                                    diff == IF code <= 40956 THEN code - 33088 ELSE code - 49472
                                IN a \o IntToBits((diff \div 256) * 192 + (diff % 256), 13), <<>>, Iota(Len(bytes) \div 2))
    [] mode = "hanzi" ->
         FoldLeft(LAMBDA a, i : LET code == bytes[2*i-1]*256 + bytes[2*i]
                                    diff == IF code <= 43774 THEN code - 41377 ELSE code - 42657
                                IN a \o IntToBits((diff \div 256) * 96 + (diff % 256), 13), <<>>, Iota(Len(bytes) \div 2))
CharCount(mode, bytes) == IF mode \in {"kanji","hanzi"} THEN Len(bytes) \div 2 ELSE Len(bytes)
EncodeSeg(v, sg) ==
  CASE sg.kind = "eci" -> IntToBits(7, 4) \o IntToBits(sg.num, 8)
    [] sg.kind = "sa" -> IntToBits(3, 4) \o IntToBits(sg.idx, 4) \o IntToBits(sg.total, 4) \o IntToBits(sg.parity, 8)
    [] sg.kind = "data" ->
         IntToBits(ModeInd(v, sg.mode), ModeBits(v)) \o (IF sg.mode = "hanzi" THEN IntToBits(1, 4) ELSE <<>>)
         \o IntToBits(CharCount(sg.mode, sg.bytes), CCBits(v, sg.mode)) \o EncodeData(sg.mode, sg.bytes)
SegBitLen(v, sg) ==
  CASE sg.kind = "eci" -> 12 [] sg.kind = "sa" -> 20
    [] sg.kind = "data" -> ModeBits(v) + (IF sg.mode = "hanzi" THEN 4 ELSE 0) + CCBits(v, sg.mode) + DataLen(sg.mode, CharCount(sg.mode, sg.bytes))
StreamLen(v, segs) == FoldLeft(LAMBDA a, sg : a + SegBitLen(v, sg), 0, segs)

\* data bit stream of the symbol: segments, terminator, padding
EncodeStream(v, e, segs) ==
  LET s == FoldLeft(LAMBDA a, sg : a \o EncodeSeg(v, sg), <<>>, segs) IN s \o IsoTail(v, Cap(v, e), Len(s))
\* final message bit stream: interleaved data and ec codewords, remainder bits
FinalBits(v, e, dbits) ==
  LET lay == Layout(v, e)
      full == IF HalfCW(v) THEN dbits \o <<0,0,0,0>> ELSE dbits
      cws == [i \in 1..(Len(full) \div 8) |-> Val(full, 8*(i-1), 8)] \o <<>>
      starts == FoldLeft(LAMBDA a, b : Append(a, a[Len(a)] + lay[b][1]), <<0>>, Iota(Len(lay)))
      blocks == [b \in 1..Len(lay) |-> LET d == SubSeq(cws, starts[b] + 1, starts[b] + lay[b][1]) IN <<d, RSRem(d, lay[b][2])>>] \o <<>>
      inter == InterleaveBlocks(blocks)
      ndata == Len(cws)
      bits == IF HalfCW(v)
              THEN BytesToBits(SubSeq(inter, 1, ndata - 1)) \o IntToBits(inter[ndata] \div 16, 4) \o BytesToBits(SubSeq(inter, ndata + 1, Len(inter)))
              ELSE BytesToBits(inter)
  IN bits \o Zeros(RemainderBits(v))
\* matrix with function patterns, final message placed and masked with `mask`, format and version information of (e, mask)
BuildMatrix(v, e, mask, fbits) ==
  LET g == Geo(v) n == g.n
      pos == DataPositionsG(g)
      idx == FoldLeft(LAMBDA a, i : [a EXCEPT ![pos[i][1] * n + pos[i][2] + 1] = i], [k \in 1..n*n |-> 0] \o <<>>, Iota(Len(pos)))
      fw == FormatWordFor(v, e, mask)
      fbit(i) == (fw \div (2^i)) % 2
      vw == IF v >= 7 THEN VersionWord(v) ELSE 0
      FmtVal(r, c) == LET S1 == {i \in 0..14 : FormatPos1(v, i) = <<r, c>>} S2 == {i \in 0..14 : FormatPos2(v, i) = <<r, c>>}
                      IN IF S1 # {} THEN fbit(CHOOSE i \in S1 : TRUE) ELSE IF ~IsMicro(v) /\ S2 # {} THEN fbit(CHOOSE i \in S2 : TRUE) ELSE 0
      VerVal(r, c) == IF c <= 5 THEN (vw \div (2^(3*c + (r - (n-11))))) % 2 ELSE (vw \div (2^(3*r + (c - (n-11))))) % 2
  IN [r \in 1..n |-> [c \in 1..n |->
        LET cls == ClassG(g, r-1, c-1) IN
        CASE cls = "data" -> (fbits[idx[(r-1)*n + c]] + (IF MaskBit(v, mask, r-1, c-1) THEN 1 ELSE 0)) % 2
          [] cls = "format" -> FmtVal(r-1, c-1)
          [] cls = "version" -> VerVal(r-1, c-1)
          [] OTHER -> PatternValueG(g, cls, r-1, c-1)] \o <<>>] \o <<>>
\* the complete reference encoder; mask = -1 selects the mask by the ISO evaluation
EncodeSymbol(v, e, mask, segs) ==
  LET fbits == FinalBits(v, e, EncodeStream(v, e, segs))
      M0 == BuildMatrix(v, e, 0, fbits)
      m == IF mask >= 0 THEN mask ELSE BestOf(MaskScores(M0, v, 0, N3Iso), IsMicro(v))
  IN [mask |-> m, M |-> BuildMatrix(v, e, m, fbits)]
=============================================================================
