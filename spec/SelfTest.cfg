INIT Init
NEXT Next
