---------------------------- MODULE Trace_SegnoSA ----------------------------
(* Exact conformance of make_sequence with SegnoSA.tla: the actions of the Structured Append machine are run from the state the
   observation's arguments define; at every terminal state of every behaviour (the behaviours differ in named deviation steps only)
   the outcome, the number of symbols and EVERY symbol matrix are compared with the observed ones.  An observation is explained iff
   at least one behaviour has no failing clause (the harness keeps all verdict lines of an observation). *)
EXTENDS SegnoSA, IOUtils, TLCExt
Obs == JsonDeserialize(IOEnv.TRACE_FILE)
N == Len(Obs)
VARIABLES tid, judged
tvars == <<tid, judged>>
TraceInit == /\ tid \in 1..N /\ judged = FALSE
             /\ msg = Obs[tid].msg /\ q = Obs[tid].q
             /\ st = "start" /\ smode = "?" /\ nsym = 0 /\ sver = NoVersionSA /\ syms = <<>> /\ res = "?" /\ devs = {}
             /\ padmode \in {"iso", "dev"}
Terminal == st \in {"returned", "returned_overfull", "done"}
Judge == /\ Terminal /\ ~judged /\ judged' = TRUE /\ UNCHANGED <<savars, tid>>
         /\ LET o == Obs[tid]
                obs_ok == o.status = "ok"
                n == Len(o.syms)
                shape(i) == ValidShape(o.syms[i].matrix) /\ Values01(o.syms[i].matrix)
                od(i) == Decode(o.syms[i].matrix)
                differs(i) == o.syms[i].matrix # syms[i].M
                fails ==
                  IF st = "done" THEN (IF obs_ok THEN {<<"C14", "accepted_although_refused_by_spec">>}
                                       ELSE IF o.status # res THEN {<<"C14", "refusal_kind">>} ELSE {})
                  ELSE IF ~obs_ok THEN {<<"C14", "refused_although_accepted_by_spec">>}
                  ELSE IF n # nsym THEN {<<"C08", "symbol_count">>}
                  ELSE IF \E i \in 1..n : ~shape(i) THEN {<<"C08", "symbols_well_formed">>}
                  ELSE IF st = "returned_overfull" THEN (IF \E i \in 1..n : od(i).v # sver THEN {<<"C08", "version">>} ELSE {})
                  ELSE IF \A i \in 1..n : ~differs(i) THEN {}
                  ELSE {<<"SPEC", "matrix_differs">>}
                       \cup (IF \E i \in 1..n : od(i).v # syms[i].version THEN {<<"C08", "version">>, <<"C04", "version">>} ELSE {})
                       \cup (IF \E i \in 1..n : od(i).fmt.level # syms[i].error THEN {<<"C05", "level">>} ELSE {})
                       \cup (IF \E i \in 1..n : differs(i) /\ od(i).fmt.mask # syms[i].mask THEN {<<"C06", "mask">>} ELSE {})
                       \cup (IF \E i \in 1..n : ~od(i).d.rs_ok THEN {<<"C03", "rs_valid">>} ELSE {})
                       \cup (IF \E i \in 1..n : \/ [k \in 1..Len(od(i).d.segs) |-> od(i).d.segs[k].kind] # [k \in 1..Len(syms[i].segs) |-> syms[i].segs[k].kind]
                                                   \/ \E k \in 1..Min2(Len(od(i).d.segs), Len(syms[i].segs)) :
                                                         LET x == od(i).d.segs[k] y == syms[i].segs[k] IN
                                                         x.kind = "sa" /\ y.kind = "sa" /\ <<x.idx, x.total, x.parity>> # <<y.idx, y.total, y.parity>>
                             THEN {<<"C08", "headers">>} ELSE {})
                       \cup (IF \E i \in 1..n : \E k \in 1..Len(od(i).d.segs) : od(i).d.segs[k].kind = "data" /\ od(i).d.segs[k].mode # smode
                             THEN {<<"C07", "sequence_mode">>} ELSE {})
                       \cup (IF FoldLeft(LAMBDA x, i : x \o od(i).d.payload, <<>>, Iota(n)) # msg.bytes THEN {<<"C08", "reassembly">>} ELSE {})
            IN PrintT(<<"VERDICT", ToJson([tid |-> o.tid, fails |-> fails, devs |-> devs,
                                            facts |-> [equal |-> (st = "returned" /\ obs_ok /\ n = nsym /\ \A i \in 1..Min2(n, Len(syms)) : ~differs(i)),
                                                       st |-> st, res |-> res, n |-> nsym, version |-> sver]])>>)
TraceNext == (SANext /\ UNCHANGED tvars) \/ Judge
AllJudged == TLCGet("distinct") >= 3 * N
=============================================================================
