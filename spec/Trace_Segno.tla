----------------------------- MODULE Trace_Segno -----------------------------
(***************************************************************************)
(* Exact-matrix conformance (code -> spec): an observation is a make()     *)
(* call on small content together with the returned matrix (or refusal).   *)
(* The actions of Segno.tla are run from the state that the observation's  *)
(* arguments define; every behaviour ends in a returned / refused state,   *)
(* where the matrix the specification built is compared with the observed  *)
(* one.  Behaviours that take a named deviation action give a second       *)
(* candidate; the harness accepts an observation if one behaviour matches  *)
(* (and reports the known finding if only a deviating behaviour does).     *)
(***************************************************************************)
EXTENDS Segno, IOUtils, TLCExt
Obs == JsonDeserialize(IOEnv.TRACE_FILE)
N == Len(Obs)
VARIABLES tid, judged
tvars == <<tid, judged>>
TraceInit == /\ tid \in 1..N /\ judged = FALSE
             /\ content = Obs[tid].content /\ maskreq = Obs[tid].maskreq
             /\ a = Args(ClassOfBytes(Obs[tid].content, FALSE, FALSE), Len(Obs[tid].content), "none", Obs[tid].version, Obs[tid].error,
                         Obs[tid].micro, FALSE, Obs[tid].boost)
             /\ stage = "decide" /\ bits = <<>> /\ endp = 0 /\ fbits = <<>> /\ usedmask = -1 /\ M = <<>> /\ dev = FALSE
             /\ pc = "start" /\ mode = "none" /\ ver = NoVersion /\ lvl = "?" /\ out = [st |-> "?"]
Terminal == stage \in {"returned", "refused"} \/ (stage = "decide" /\ pc = "done" /\ out.st # "ok")
Judge == /\ Terminal /\ ~judged /\ judged' = TRUE /\ UNCHANGED <<allvars, tid>>
         /\ LET o == Obs[tid]
                refused == stage # "returned"
                obs_ok == o.status = "ok"
                od == IF obs_ok /\ ValidShape(o.matrix) /\ Values01(o.matrix) THEN Decode(o.matrix) ELSE Decode(M)
                fails ==
                  IF refused THEN (IF obs_ok THEN {<<"C14", "accepted_although_refused_by_spec">>} ELSE {})
                  ELSE IF ~obs_ok THEN {<<"C14", "refused_although_accepted_by_spec">>}
                  ELSE IF o.matrix = M THEN {}
                  ELSE {<<"SPEC", "matrix_differs">>}
                       \cup (IF od.d.payload # content \/ od.d.parse # "end" THEN {<<"C01", "payload">>} ELSE {})
                       \cup (IF od.v # out.version THEN {<<"C04", "version">>} ELSE {})
                       \cup (IF od.fmt.level # out.error THEN {<<"C05", "level">>} ELSE {})
                       \cup (IF od.fmt.mask # usedmask THEN {<<"C06", "mask">>} ELSE {})
                       \cup (IF ~od.d.rs_ok THEN {<<"C03", "rs_valid">>} ELSE {})
            IN PrintT(<<"VERDICT", ToJson([tid |-> o.tid, fails |-> fails, devs |-> IF dev THEN {"Dev_PadBitsWhenAligned"} ELSE {},
                                            facts |-> [equal |-> (~refused /\ obs_ok /\ o.matrix = M), dev |-> dev, refused |-> refused]])>>)
TraceNext == (SNext /\ UNCHANGED tvars) \/ Judge
AllJudged == TLCGet("distinct") >= 3 * N
=============================================================================
