-------------------------------- MODULE Args --------------------------------
(***************************************************************************)
(* C14, factory functions: the documented argument domains as value        *)
(* classes (canonical spelling, documented alternative spelling, boundary, *)
(* malformed) and the outcome the documentation allows for every           *)
(* combination: a symbol, ValueError, or LookupError (unknown codec).      *)
(* One action per normalisation stage of encoder.encode(); the terminal    *)
(* states are exported as test vectors (spec -> code) and observations of  *)
(* the real calls are validated against Allowed (code -> spec).            *)
(*                                                                         *)
(* Contents are chosen so that validity does not depend on capacity        *)
(* details: "short" contents fit M4 at every level and version 5;          *)
(* the "long" content (40 bytes) fits version 5 at every level, no Micro.  *)
(***************************************************************************)
EXTENDS Integers, Sequences, FiniteSets, TLC, Json

CONSTANTS MaxNonDefault     \* how many arguments may differ from the default at once (2: pairwise, 9: full product)

Apis      == {"make", "make_qr", "make_micro", "make_sequence"}
CountCs   == {"none", "two", "sixteen", "zero", "seventeen"}       \* symbol_count of make_sequence
VersionCs == {"none", "int", "str_int", "micro_upper", "micro_lower", "zero", "neg", "big", "str_bad", "str_junk", "str_big",
              "str_zero", "str_neg", "str_neg3"}       \* '0', '-1', '-3' (the private constants of M4, M3, M1 as text)
ErrorCs   == {"none", "M", "m", "H", "h", "bad", "empty"}
ModeCs    == {"none", "canon", "upper", "mixed", "bad"}
MaskCs    == {"none", "int", "str_int", "four", "eight", "neg", "str_bad", "zero", "str_zero", "str_seven"}      \* 0 and '0' are masks
MicroCs   == {"none", "yes", "no"}
EncCs     == {"none", "utf8", "utf8_upper", "latin1", "unknown"}
ContentCs == {"digits", "alnum", "text", "bytes", "int", "empty", "long"}

VARIABLES pc, a, ver, refusals, lookup
vars == <<pc, a, ver, refusals, lookup>>

Default == [api |-> "make", version |-> "none", error |-> "none", mode |-> "none", mask |-> "none", micro |-> "none",
            eci |-> FALSE, boost |-> TRUE, encoding |-> "none", content |-> "text", count |-> "none"]
NonDefault(x) == Cardinality({f \in DOMAIN Default \ {"api"} : x[f] # Default[f]})   \* the factory function does not count

ApiOK(x) == /\ (x.api = "make_qr" => x.micro = "none")        \* make_qr has no micro parameter (it passes micro=False)
            /\ (x.api = "make_micro" => x.micro = "none" /\ ~x.eci)   \* make_micro has neither micro nor eci
            /\ (x.api = "make_sequence" => x.micro = "none" /\ ~x.eci)   \* make_sequence has neither micro nor eci
            /\ (x.api # "make_sequence" => x.count = "none")
EffMicro(x) == IF x.api \in {"make_qr", "make_sequence"} THEN "no" ELSE IF x.api = "make_micro" THEN "yes" ELSE x.micro

Init == /\ pc = "pick" /\ a = Default /\ ver = "?" /\ refusals = {} /\ lookup = FALSE
Pick == /\ pc = "pick" /\ pc' = "version"
        /\ \E api \in Apis : \E v \in VersionCs : \E e \in ErrorCs : \E m \in ModeCs : \E k \in MaskCs : \E mi \in MicroCs :
           \E eci \in BOOLEAN : \E bo \in BOOLEAN : \E enc \in EncCs : \E c \in ContentCs : \E n \in CountCs :
             LET x == [api |-> api, version |-> v, error |-> e, mode |-> m, mask |-> k, micro |-> mi, eci |-> eci, boost |-> bo,
                       encoding |-> enc, content |-> c, count |-> n] IN
             /\ ApiOK(x) /\ NonDefault(x) <= MaxNonDefault
             /\ a' = x
        /\ UNCHANGED <<ver, refusals, lookup>>

ContentLen(c) == CASE c = "digits" -> 5 [] c = "alnum" -> 5 [] c = "text" -> 5 [] c = "bytes" -> 4 [] c = "int" -> 5 [] c = "empty" -> 0 [] c = "long" -> 40
CountOf(n) == CASE n = "two" -> 2 [] n = "sixteen" -> 16 [] OTHER -> 0
VersionKind(v) == CASE v \in {"int", "str_int"} -> "qr" [] v \in {"micro_upper", "micro_lower"} -> "micro" [] v = "none" -> "none" [] OTHER -> "bad"
Refuse(why) == refusals' = refusals \cup {why}

\* normalize_version and the version / micro checks
NormVersion ==
  /\ pc = "version" /\ pc' = "level"
  /\ ver' = VersionKind(a.version)
  /\ IF VersionKind(a.version) = "bad" THEN Refuse("version out of M1-M4 / 1-40")
     ELSE IF EffMicro(a) = "no" /\ VersionKind(a.version) = "micro" THEN Refuse("Micro version with micro=False")
     ELSE IF EffMicro(a) = "yes" /\ VersionKind(a.version) = "qr" THEN Refuse("QR version with micro=True")
     ELSE IF a.api = "make_sequence" /\ a.version = "none" /\ a.count = "none" THEN Refuse("neither version nor symbol_count")
     ELSE IF a.api = "make_sequence" /\ a.count \in {"zero", "seventeen"} THEN Refuse("symbol_count outside 1 .. 16")
     ELSE IF a.api = "make_sequence" /\ a.count \in {"two", "sixteen"} /\ ContentLen(a.content) < CountOf(a.count) THEN Refuse("content shorter than symbol_count")
     ELSE UNCHANGED refusals
  /\ UNCHANGED <<a, lookup>>
\* normalize_errorlevel, normalize_mode, and the documented exclusions
IsH(e) == e \in {"H", "h"}
MicroWanted == EffMicro(a) = "yes" \/ ver = "micro"
NormLevelMode ==
  /\ pc = "level" /\ pc' = "content"
  /\ refusals' = refusals
        \cup (IF a.error \in {"bad", "empty"} THEN {"illegal error level"} ELSE {})
        \cup (IF a.mode = "bad" THEN {"illegal mode"} ELSE {})
        \cup (IF IsH(a.error) /\ MicroWanted THEN {"H with Micro QR"} ELSE {})
        \cup (IF a.eci /\ MicroWanted THEN {"ECI with Micro QR"} ELSE {})
  /\ UNCHANGED <<a, ver, lookup>>
\* prepare_data: the codec is looked up for text / integer content (bytes are taken as they are; with eci the ECI
\* number of the codec is looked up later)
PrepareContent ==
  /\ pc = "content" /\ pc' = "size"
  /\ lookup' = (a.encoding = "unknown")
  /\ UNCHANGED <<a, ver, refusals>>
\* find_version: the long content fits no Micro QR Code
ResultMicro == a.api # "make_sequence" /\ (ver = "micro" \/ (ver = "none" /\ EffMicro(a) # "no" /\ ~a.eci /\ ~IsH(a.error) /\ a.content # "long"))
Size ==
  /\ pc = "size" /\ pc' = "mask"
  /\ IF a.content = "long" /\ MicroWanted THEN Refuse("data overflow") ELSE UNCHANGED refusals
  /\ UNCHANGED <<a, ver, lookup>>
\* normalize_mask needs to know whether the symbol is a Micro QR Code
NormMask ==
  /\ pc = "mask" /\ pc' = "done"
  /\ IF a.mask \in {"eight", "neg", "str_bad"} \/ (a.mask \in {"four", "str_seven"} /\ ResultMicro) THEN Refuse("mask out of range") ELSE UNCHANGED refusals
  /\ UNCHANGED <<a, ver, lookup>>
Next == Pick \/ NormVersion \/ NormLevelMode \/ PrepareContent \/ Size \/ NormMask
Spec == Init /\ [][Next]_vars

\* what the documentation allows to come out of the call
Allowed ==
  LET codecUsed == a.content \notin {"bytes"}        \* bytes content: the codec is only looked up when an ECI header is written
  IN IF refusals # {} THEN (IF lookup THEN {"ValueError", "LookupError"} ELSE {"ValueError"})
     ELSE IF lookup THEN (IF codecUsed THEN {"LookupError"} ELSE {"ok", "LookupError"})
     ELSE {"ok"}
Done == pc = "done"

(* properties of the model *)
ExclusionsRefused == Done /\ (IsH(a.error) \/ a.eci) /\ MicroWanted => "ok" \notin Allowed
NeverOtherException == Done => Allowed \subseteq {"ok", "ValueError", "LookupError"} /\ Allowed # {}
SpellingsAccepted == Done /\ refusals = {} /\ ~lookup => Allowed = {"ok"}
Export == Done => PrintT(<<"VECTOR", ToJson([args |-> a, allowed |-> Allowed, why |-> refusals, micro |-> ResultMicro])>>)
=============================================================================
