CONSTANTS
  Scope = "trace"
  BVersions <- Nothing
  SmallMaxN = 0
  SmallVersions <- Nothing
  VSels <- Nothing
  Slim = FALSE
  Variants <- NoSeq
  Alphabet <- Alpha5
  MaxLen = 2
  ReqVersions <- VQ2
  ReqLevels = {"-", "M"}
  ReqMasks <- MasksQuick
  ReqMicro = {"none", "no"}
  ReqBoost = {TRUE}
  AllowDevPad = TRUE
INIT SInit
NEXT SNext
CHECK_DEADLOCK FALSE
INVARIANT C01_RoundTrip
INVARIANT C02_Geometry
INVARIANT C03_Blocks
INVARIANT C06_Mask
INVARIANT C07_ModeInSymbol
INVARIANT C13_TailAlways
INVARIANT Dev_Recognised
