CONSTANTS
  Blocks <- BlocksQuick
  Values = {1, 128, 255}
  MaxErrors = 2
SPECIFICATION Spec
CHECK_DEADLOCK FALSE
INVARIANT Restored
INVARIANT NeverSilent
INVARIANT CleanWhenUntouched
INVARIANT FieldAxioms
