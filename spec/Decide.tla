------------------------------- MODULE Decide -------------------------------
(***************************************************************************)
(* The control part of segno.make / make_qr / make_micro as a state        *)
(* machine over ABSTRACT content: a part is <<class, n>> (class of the     *)
(* bytes the text->bytes policy yields, and their number).  One action per *)
(* stage of encoder.encode():                                              *)
(*                                                                         *)
(*   Normalize    combination checks of version / micro / mode / level /   *)
(*                eci (refusal with ValueError)                            *)
(*   Prepare      mode choice (requested mode honoured or refused, else    *)
(*                first applicable of numeric, alphanumeric, kanji, byte)  *)
(*   FindVersion  linear search M1 < .. < M4 < 1 < .. < 40 for the first   *)
(*                admissible version whose capacity holds the bits;        *)
(*                DataOverflowError                                        *)
(*   Boost        error level boosting                                     *)
(*   Return                                                                *)
(*                                                                         *)
(* The properties C04, C05, C07 are stated declaratively (quantifiers over *)
(* versions / levels) as invariants of the terminal states, so TLC checks  *)
(* the operational model against them on the whole enumerated input space, *)
(* and every terminal state is exported as a test vector for the           *)
(* implementation (spec -> code).                                          *)
(***************************************************************************)
EXTENDS ISOTables, Json

CONSTANTS Scope,        \* "boundary" | "small" | "trace"
          BVersions,    \* versions whose capacity boundaries are enumerated (scope "boundary")
          SmallMaxN,    \* largest content length of scope "small"
          SmallVersions, \* requestable versions of scope "small"
          VSels,        \* requested-version selectors of scope "boundary": subset of {"none","same","less","more"}
          Variants,     \* sequence of <<micro, boost>> combinations of scope "boundary"
          Slim          \* TRUE: scope "boundary" without requested byte mode, without eci, lengths at / just above the capacity only

NoVersion == 99
Classes == {"num", "alnum", "kanji", "l1", "x8", "hanzi"}
\* num: ASCII digits; alnum: the 45 characters, not all digits; kanji: valid double-byte Shift JIS pairs (n bytes, even);
\* l1: other bytes in ISO-8859-1 (or raw bytes); x8: other bytes in an encoding that needs an ECI header; hanzi: GB2312 pairs
Representable(mode, cls) == CASE mode = "numeric" -> cls = "num" [] mode = "alphanumeric" -> cls \in {"num", "alnum"}
                              [] mode = "byte" -> TRUE [] mode = "kanji" -> cls = "kanji" [] mode = "hanzi" -> cls = "hanzi"
Chars(mode, n) == IF mode \in {"kanji", "hanzi"} THEN n \div 2 ELSE n
EciHdr(a, mode) == IF a.eci /\ mode = "byte" /\ a.cls = "x8" THEN 12 ELSE 0
Bits(v, a, mode) == ModeBits(v) + (IF mode = "hanzi" THEN 4 ELSE 0) + CCBits(v, mode) + DataLen(mode, Chars(mode, a.n)) + EciHdr(a, mode)

\* the level at which the capacity of version v is looked up
LevelFor(v, a) == IF v = -3 THEN "-" ELSE IF a.error = "-" THEN "L" ELSE a.error
Admissible(v, a, mode) ==
  /\ (IsMicro(v) => a.micro # "no" /\ ~a.eci /\ ModeOK(v, mode))
  /\ (~IsMicro(v) => a.micro # "yes")
  /\ (v = -3 => a.error = "-")
  /\ HasLevel(v, LevelFor(v, a))
Fits(v, a, mode) == Admissible(v, a, mode) /\ CapT(v, LevelFor(v, a)) >= Bits(v, a, mode)

(* ------------------------------------------------------------------ state machine *)
VARIABLES pc,    \* "start" | "normalized" | "prepared" | "sized" | "boosted" | "done"
          a,     \* the abstract arguments
          mode,  \* chosen mode or "none"
          ver,   \* chosen version or NoVersion
          lvl,   \* chosen level or "?"
          out    \* outcome record
vars == <<pc, a, mode, ver, lvl, out>>

Args(cls, n, modeReq, vReq, eReq, micro, eci, boost) ==
  [cls |-> cls, n |-> n, mode |-> modeReq, version |-> vReq, error |-> eReq, micro |-> micro, eci |-> eci, boost |-> boost]

\* largest n of class cls (in its automatic mode, or in mode m) that fits version v at level e; -1 if none
MaxFitN(v, e, m, cls) ==
  LET c == CapT(v, e) - ModeBits(v) - (IF m = "hanzi" THEN 4 ELSE 0) - CCBits(v, m)
      lim == 2^CCBits(v, m) - 1
      chars == CASE m = "numeric" -> 3 * (c \div 10) + (IF c % 10 >= 7 THEN 2 ELSE IF c % 10 >= 4 THEN 1 ELSE 0)
                 [] m = "alphanumeric" -> 2 * (c \div 11) + (IF c % 11 >= 6 THEN 1 ELSE 0)
                 [] m = "byte" -> c \div 8
                 [] OTHER -> c \div 13
      k == IF chars > lim THEN lim ELSE chars
  IN IF ~ModeOK(v, m) \/ (m = "hanzi" /\ v < 1) \/ c < 0 THEN -1 ELSE IF m \in {"kanji", "hanzi"} THEN 2 * k ELSE k

MaxFitTab == [m \in {"numeric", "alphanumeric", "byte", "kanji", "hanzi"} |->
                [k \in 1..44 |-> [e \in {"L", "M", "Q", "H", "-"} |-> IF HasLevel(AllVersions[k], e) THEN MaxFitN(AllVersions[k], e, m, "") ELSE -1]] \o <<>>]
MaxFitT(v, e, m) == MaxFitTab[m][v+4][e]
ValidN(cls, n) == n >= 1 /\ (cls \in {"kanji", "hanzi"} => n % 2 = 0) /\ (cls = "x8" => n >= 2)

PickBoundary ==
  \E cls \in (IF Slim THEN {"num", "alnum", "kanji", "l1"} ELSE Classes) : \E vb \in BVersions : \E eb \in {"L", "M", "Q", "H", "-"} : \E mr \in (IF Slim THEN {"auto"} ELSE {"auto", "byte"}) : \E eci \in (IF Slim THEN {FALSE} ELSE BOOLEAN) :
    LET m == IF cls = "hanzi" THEN "hanzi" ELSE IF mr = "byte" THEN "byte" ELSE AutoMode(cls)
        extra == IF eci /\ m = "byte" /\ cls = "x8" THEN 12 ELSE 0
        n0 == MaxFitT(vb, eb, m)
        n1 == IF extra > 0 /\ n0 >= 2 THEN n0 - 2 ELSE n0                  \* 12 bits of ECI header: one or two bytes less
    IN /\ HasLevel(vb, eb) /\ n0 >= 1
       /\ (mr = "byte" => cls \in {"num", "alnum", "kanji"})           \* requested byte mode for content with a more compact mode
       /\ (eci => cls \in {"x8", "l1", "num"})                          \* ECI matters for byte content; "num" probes the Micro exclusion
       /\ \E d \in (IF Slim THEN {0, 1} ELSE {-1, 0, 1}) :
            LET n == n1 + (IF m \in {"kanji", "hanzi"} THEN 2 * d ELSE d) IN
            /\ ValidN(cls, n)
            /\ \E vsel \in VSels : \E esel \in (IF Slim THEN {"same"} ELSE {"none", "same"}) : \E k \in 1..Len(Variants) :
                 LET vr == CASE vsel = "none" -> NoVersion [] vsel = "same" -> vb [] vsel = "less" -> vb - 1 [] vsel = "more" -> vb + 1
                     er == IF esel = "none" THEN "-" ELSE eb
                 IN /\ (vr = NoVersion \/ (vr >= -3 /\ vr <= 40))
                    /\ (eb = "-" => esel = "none")
                    /\ a' = Args(cls, n, IF cls = "hanzi" THEN "hanzi" ELSE IF mr = "byte" THEN "byte" ELSE "none", vr, er,
                                Variants[k][1], eci, Variants[k][2])

PickSmall ==
  \E cls \in Classes : \E n \in 1..SmallMaxN : \E mr \in {"none", "numeric", "alphanumeric", "byte", "kanji", "hanzi"} :
  \E vr \in {NoVersion} \cup SmallVersions : \E er \in {"-", "L", "M", "Q", "H"} : \E mi \in {"none", "yes", "no"} :
  \E eci \in BOOLEAN : \E bo \in BOOLEAN :
    /\ ValidN(cls, n)
    /\ (cls = "hanzi" => mr = "hanzi")                                  \* hanzi text is only generated together with mode hanzi
    /\ a' = Args(cls, n, mr, vr, er, mi, eci, bo)

\* The enumeration of the argument space is the first action (Pick) rather than part of Init: TLC computes
\* initial states single-threaded and an order of magnitude slower than successor states.
NoArgs == Args("", 0, "none", NoVersion, "-", "none", FALSE, FALSE)
Init == /\ pc = "pick" /\ a = NoArgs /\ mode = "none" /\ ver = NoVersion /\ lvl = "?" /\ out = [st |-> "?"]
Pick == /\ pc = "pick" /\ pc' = "start"
        /\ IF Scope = "boundary" THEN PickBoundary ELSE PickSmall
        /\ UNCHANGED <<mode, ver, lvl, out>>

Refuse(why) == /\ pc' = "done" /\ out' = [st |-> "ValueError", why |-> why] /\ UNCHANGED <<a, mode, ver, lvl>>

\* encoder.encode(): the combination checks, in the order of the code
Normalize ==
  /\ pc = "start"
  /\ LET vgiven == a.version # NoVersion
         vmicro == vgiven /\ IsMicro(a.version) IN
     IF a.micro = "no" /\ vmicro THEN Refuse("micro=False with Micro version")
     ELSE IF a.micro = "yes" /\ vgiven /\ ~vmicro THEN Refuse("micro=True with QR version")
     ELSE IF a.mode # "none" /\ vgiven /\ ~(ModeOK(a.version, a.mode) /\ (a.mode = "hanzi" => a.version >= 1)) THEN Refuse("mode not available in version")
     ELSE IF a.error = "H" /\ (a.micro = "yes" \/ vmicro) THEN Refuse("H with Micro")
     ELSE IF a.eci /\ (a.micro = "yes" \/ vmicro) THEN Refuse("ECI with Micro")
     ELSE pc' = "normalized" /\ UNCHANGED <<a, mode, ver, lvl, out>>

\* encoder.prepare_data() / make_segment(): mode choice
Prepare ==
  /\ pc = "normalized"
  /\ IF a.mode # "none" /\ ~Representable(a.mode, a.cls) THEN Refuse("content not representable in requested mode")
     ELSE /\ mode' = (IF a.mode = "none" THEN AutoMode(a.cls) ELSE a.mode)
          /\ pc' = "prepared" /\ UNCHANGED <<a, ver, lvl, out>>

\* encoder.find_version() as the linear search it is, then the requested-version check of encode()
SearchRange == IF a.micro = "yes" THEN <<-3, -2, -1, 0>> ELSE IF a.micro = "no" \/ a.eci THEN Iota(40) ELSE AllVersions
FirstFit == LET S == SelectSeq(SearchRange, LAMBDA v : Fits(v, a, mode)) IN IF S = <<>> THEN NoVersion ELSE S[1]
FindVersion ==
  /\ pc = "prepared"
  /\ LET g == FirstFit IN
     IF g = NoVersion THEN /\ pc' = "done" /\ out' = [st |-> "DataOverflowError", why |-> "nothing fits"] /\ UNCHANGED <<a, mode, ver, lvl>>
     ELSE IF a.version # NoVersion /\ g > a.version
          THEN /\ pc' = "done" /\ out' = [st |-> "DataOverflowError", why |-> "does not fit requested version"] /\ UNCHANGED <<a, mode, ver, lvl>>
     ELSE /\ ver' = (IF a.version = NoVersion THEN g ELSE a.version)
          /\ lvl' = LevelFor(IF a.version = NoVersion THEN g ELSE a.version, a)
          /\ pc' = "sized" /\ UNCHANGED <<a, mode, out>>

\* a requested version may lack the requested level (e.g. M2 with Q): encode() fails with a KeyError-turned... the
\* documentation excludes the combination; the model refuses it
LevelCheck ==
  /\ pc = "sized"
  /\ IF ~HasLevel(ver, lvl) THEN Refuse("level not available in version")
     ELSE pc' = "levelled" /\ UNCHANGED <<a, mode, ver, lvl, out>>

\* encoder.boost_error_level(): climb while the capacity of the next level still holds the bits
Boost ==
  /\ pc = "levelled"
  /\ LET need == Bits(ver, a, mode)
         ls == LevelsOf(ver)
         climb == FoldLeft(LAMBDA st, e : IF st[2] /\ LevelIdx(e) > LevelIdx(st[1]) /\ CapT(ver, e) >= need THEN <<e, TRUE>>
                                          ELSE IF LevelIdx(e) > LevelIdx(st[1]) THEN <<st[1], FALSE>> ELSE st,
                           <<lvl, TRUE>>, ls)
     IN lvl' = (IF a.boost /\ lvl \notin {"-", "H"} THEN climb[1] ELSE lvl)
  /\ pc' = "boosted" /\ UNCHANGED <<a, mode, ver, out>>

Return ==
  /\ pc = "boosted"
  /\ pc' = "done"
  /\ out' = [st |-> "ok", version |-> ver, error |-> lvl, mode |-> mode]
  /\ UNCHANGED <<a, mode, ver, lvl>>

Next == Pick \/ Normalize \/ Prepare \/ FindVersion \/ LevelCheck \/ Boost \/ Return
Spec == Init /\ [][Next]_vars

(* ------------------------------------------------------------------ declarative properties *)
Done == pc = "done"
Ok == Done /\ out.st = "ok"
\* position in the order M1 < M2 < M3 < M4 < 1 < ... < 40 is the version number itself (-3..40)
EffMode == IF a.mode = "none" THEN AutoMode(a.cls) ELSE a.mode
Excluded ==   \* combinations the documentation excludes
  \/ (a.micro = "no" /\ a.version # NoVersion /\ IsMicro(a.version))
  \/ (a.micro = "yes" /\ a.version # NoVersion /\ ~IsMicro(a.version))
  \/ (a.error = "H" /\ (a.micro = "yes" \/ (a.version # NoVersion /\ IsMicro(a.version))))
  \/ (a.eci /\ (a.micro = "yes" \/ (a.version # NoVersion /\ IsMicro(a.version))))
  \/ (a.mode # "none" /\ a.version # NoVersion /\ ~ModeOK(a.version, a.mode))
  \/ (a.mode = "hanzi" /\ (a.micro = "yes" \/ (a.version # NoVersion /\ IsMicro(a.version))))

\* C04: the first admissible version that holds the content is chosen; a requested version is returned iff it fits;
\*      overflow is reported exactly when nothing admissible fits
C04_Smallest == Ok /\ a.version = NoVersion =>
                   /\ Fits(out.version, a, out.mode)
                   /\ \A v \in -3..40 : v < out.version => ~Fits(v, a, out.mode)
C04_Requested == Ok /\ a.version # NoVersion => out.version = a.version /\ CapT(a.version, LevelFor(a.version, a)) >= Bits(a.version, a, out.mode)
C04_OverflowIff == Done /\ ~Excluded /\ (a.mode = "none" \/ Representable(a.mode, a.cls)) =>
                   ( out.st = "DataOverflowError" <=>
                       IF a.version = NoVersion THEN \A v \in -3..40 : ~Fits(v, a, EffMode)
                       ELSE ~Fits(a.version, a, EffMode) )
\* C05
C05_NotBelow == Ok => (out.error = "-" <=> out.version = -3) /\ (a.error # "-" /\ out.error # "-" => LevelIdx(out.error) >= LevelIdx(a.error))
C05_NoHInMicro == Ok /\ IsMicro(out.version) => out.error # "H"
C05_BoostMax == Ok /\ a.boost /\ out.error # "-" =>
                   /\ CapT(out.version, out.error) >= Bits(out.version, a, out.mode)
                   /\ \A e \in {"L", "M", "Q", "H"} : (HasLevel(out.version, e) /\ LevelIdx(e) > LevelIdx(out.error)) => CapT(out.version, e) < Bits(out.version, a, out.mode)
C05_NoBoostExact == Ok /\ ~a.boost => out.error = LevelFor(out.version, a)
\* C07
C07_Auto == Ok /\ a.mode = "none" => out.mode = AutoMode(a.cls) /\ out.mode # "hanzi"
C07_Requested == Done /\ a.mode # "none" => (out.st = "ok" => out.mode = a.mode /\ Representable(a.mode, a.cls) /\ ModeOK(out.version, a.mode))
C07_Refused == Done /\ a.mode # "none" /\ ~Representable(a.mode, a.cls) => out.st = "ValueError"
\* C14 (control part): excluded combinations are always refused
C14_Excluded == Done /\ Excluded => out.st \in {"ValueError", "DataOverflowError"}
Terminates == <>Done

\* boosting never changes the version: the version chosen does not depend on a.boost
VersionOf(args) == LET m == IF args.mode = "none" THEN AutoMode(args.cls) ELSE args.mode
                       S == SelectSeq(IF args.micro = "yes" THEN <<-3, -2, -1, 0>> ELSE IF args.micro = "no" \/ args.eci THEN Iota(40) ELSE AllVersions,
                                      LAMBDA v : Fits(v, args, m))
                   IN IF S = <<>> THEN NoVersion ELSE S[1]
C05_BoostKeepsVersion == Ok /\ a.version = NoVersion => out.version = VersionOf([a EXCEPT !.boost = ~a.boost])

\* spec -> code: every terminal state is a test vector with the predicted outcome
Export == Done => PrintT(<<"VECTOR", ToJson([args |-> a, out |-> out])>>)
=============================================================================
