CONSTANTS
  Scope = "trace"
  BVersions = {}
  SmallMaxN = 0
  SmallVersions = {}
  VSels = {}
  Slim = FALSE
  Variants = {}
  Alphabet = {}
  MaxLen = 0
  ReqVersions = {}
  ReqLevels = {}
  ReqMasks = {}
  ReqMicro = {}
  ReqBoost = {}
  AllowDevPad = TRUE
INIT TraceInit
NEXT TraceNext
CHECK_DEADLOCK FALSE
POSTCONDITION AllJudged
