#!/bin/sh
# usage: run_mutant.sh <seeded id> <property id> [tier]   -- runs bin/check against a scratch worktree with the mutant applied
ID="$1"; PID="$2"; TIER="${3:-quick}"
WT=/tmp/mw/$ID-$PID
rm -rf "$WT" /tmp/mw/work-$ID-$PID; mkdir -p /tmp/mw
git -C /repo worktree add --detach "$WT" HEAD >/dev/null 2>&1 || { echo "$ID worktree-failed"; exit 2; }
git -C "$WT" apply /verif/seeded/$ID/patch.diff || { echo "$ID apply-failed"; git -C /repo worktree remove --force "$WT"; exit 2; }
VERIF_REPO="$WT" VERIF_WORK=/tmp/mw/work-$ID-$PID VERIF_EVID=/tmp/mw/work-$ID-$PID/evidence /verif/bin/check "$PID" --tier "$TIER" > /tmp/mw/$ID-$PID.out 2>&1
RC=$?
NV=$(grep -c '^VIOLATION' /tmp/mw/$ID-$PID.out)
git -C /repo worktree remove --force "$WT" >/dev/null 2>&1
rm -rf /tmp/mw/work-$ID-$PID
echo "$ID $PID exit=$RC violations_listed=$NV :: $(tail -1 /tmp/mw/$ID-$PID.out | cut -c1-200)"
