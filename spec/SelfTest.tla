------------------------------ MODULE SelfTest ------------------------------
(* Setup-time self checks of the table modules (evaluated in a state context so that constants are cached) *)
EXTENDS ISOTables, TLCExt
VARIABLE x
Init == x = 0
Next == /\ x = 0 /\ x' = 1
        /\ PrintT(<<"SELFCHECK", "GF256", GFSelfCheck(0)>>)
        /\ PrintT(<<"SELFCHECK", "ISOTables", ISOSelfCheck(0)>>)
=============================================================================
