---------------------------- MODULE Trace_Render ----------------------------
(* Trace validation of serialised documents (C09 raster / text, C10 vector, C11 per-type colours and module iteration):
   one observation per written document; TLC evaluates the clauses of Render / Vector on the projected document. *)
EXTENDS Vector, Json, IOUtils, TLCExt

Obs == JsonDeserialize(IOEnv.TRACE_FILE)
N == Len(Obs)
VARIABLES tid, judged
Init == tid \in 1..N /\ judged = FALSE
Verdict(o) ==
  LET fails == CASE o.family = "raster" -> RasterFails(o)
                 [] o.family = "vector" -> VectorFails(o)
                 [] o.family = "typed" -> TypedFails(o)
                 [] o.family = "iter" -> IterFails(o)
  IN [tid |-> o.tid, fails |-> {<<o.prop, c>> : c \in fails}, devs |-> DevsOf(o, fails), facts |-> [kind |-> o.kind]]
Judge == /\ ~judged /\ judged' = TRUE /\ tid' = tid
         /\ PrintT(<<"VERDICT", ToJson(Verdict(Obs[tid]))>>)
Next == Judge
AllJudged == TLCGet("distinct") = 2 * N
=============================================================================
