------------------------------- MODULE Vector -------------------------------
(***************************************************************************)
(* The pen machine for the vector serialisers (C10): the drawing program   *)
(* of an SVG / EPS / PDF / PGF document is replayed and the unit squares   *)
(* its strokes cover are compared with the dark modules of the symbol.     *)
(* Also: per-module-type colouring and module iteration (C11).             *)
(*                                                                         *)
(* Numbers are integers in micro-units (10^-6) of what the document says;  *)
(* drawing coordinates are compared before the document's own uniform      *)
(* scale is applied (the scale itself is a clause), so nothing exceeds     *)
(* TLC's 32-bit integers.                                                  *)
(***************************************************************************)
EXTENDS Render

U == 1000000                       \* one unit in micro-units
Near(a, c, tol) == a - c <= tol /\ c - a <= tol
DarkCells(M, b) == {<<r + b, c + b>> : <<r, c>> \in {rc \in (0..Len(M)-1) \X (0..Len(M)-1) : M[rc[1]+1][rc[2]+1] = 1}}

\* A horizontal stroke of width 1 from (x, y) of length len (micro-units of module coordinates) covers, if it is aligned
\* to the module grid (x and len whole, y a half), the cells <<row, col>> with row = (y - 1/2).  tol absorbs float noise.
Whole(v, tol) == LET r == ((v % U) + U) % U IN r <= tol \/ U - r <= tol
Half(v, tol) == Whole(v - (U \div 2), tol)
RoundU(v) == IF v >= 0 THEN (v + U \div 2) \div U ELSE -((-v + U \div 2) \div U)
SegCells(x, y, len, tol) ==     \* row counted in the direction of the y axis of the document
  IF ~(Whole(x, tol) /\ Whole(len, tol) /\ Half(y, tol) /\ len > 0) THEN <<>>
  ELSE [k \in 1..RoundU(len) |-> <<RoundU(y - (U \div 2)), RoundU(x) + k - 1>>] \o <<>>

(* ---------------- generic path interpreter ---------------- *)
\* ops: [op |-> "M" | "m" | "h" | "v" | "z" | "L" | "l", a, b]; returns [cells, bad, rect]
\* rect: <<x0, y0, w, h>> if the path is exactly M x0 y0 h w v h h -w z (a filled rectangle), else <<>>
PenRun(ops, tol) ==
  FoldLeft(LAMBDA st, op :
     CASE op.op = "M" -> [st EXCEPT !.x = op.a, !.y = op.b, !.sx = op.a, !.sy = op.b]
       [] op.op = "m" -> [st EXCEPT !.x = @ + op.a, !.y = @ + op.b, !.sx = st.x + op.a, !.sy = st.y + op.b]
       [] op.op = "h" -> LET cs == SegCells(st.x, st.y, op.a, tol) IN
                         IF cs = <<>> THEN [st EXCEPT !.bad = TRUE, !.x = @ + op.a] ELSE [st EXCEPT !.x = @ + op.a, !.cells = @ \o cs]
       [] op.op = "l" -> IF op.b # 0 THEN [st EXCEPT !.bad = TRUE] ELSE
                         LET cs == SegCells(st.x, st.y, op.a, tol) IN
                         IF cs = <<>> THEN [st EXCEPT !.bad = TRUE, !.x = @ + op.a] ELSE [st EXCEPT !.x = @ + op.a, !.cells = @ \o cs]
       [] op.op = "L" -> IF ~Near(op.b, st.y, tol) THEN [st EXCEPT !.bad = TRUE] ELSE
                         LET cs == SegCells(st.x, st.y, op.a - st.x, tol) IN
                         IF cs = <<>> THEN [st EXCEPT !.bad = TRUE, !.x = op.a] ELSE [st EXCEPT !.x = op.a, !.cells = @ \o cs]
       [] op.op = "H" -> LET cs == SegCells(st.x, st.y, op.a - st.x, tol) IN          \* absolute horizontal line
                         IF cs = <<>> THEN [st EXCEPT !.bad = TRUE, !.x = op.a] ELSE [st EXCEPT !.x = op.a, !.cells = @ \o cs]
       [] OTHER -> [st EXCEPT !.bad = TRUE],
     [x |-> 0, y |-> 0, sx |-> 0, sy |-> 0, cells |-> <<>>, bad |-> FALSE], ops)
\* a closed path of axis-parallel segments whose vertices are exactly the four corners of a rectangle (any of M m h H v V l L z):
\* << x, y, width, height >> of the rectangle, << >> otherwise
PolyVertices(ops) ==
  FoldLeft(LAMBDA st, op :
     LET to(nx, ny) == IF nx # st.x /\ ny # st.y THEN [st EXCEPT !.bad = TRUE] ELSE [st EXCEPT !.x = nx, !.y = ny, !.vs = Append(@, <<nx, ny>>)] IN
     CASE op.op = "M" -> [st EXCEPT !.x = op.a, !.y = op.b, !.vs = Append(@, <<op.a, op.b>>), !.bad = @ \/ st.vs # <<>>]
       [] op.op = "m" -> [st EXCEPT !.x = @ + op.a, !.y = @ + op.b, !.vs = Append(@, <<st.x + op.a, st.y + op.b>>), !.bad = @ \/ st.vs # <<>>]
       [] op.op = "h" -> to(st.x + op.a, st.y)
       [] op.op = "H" -> to(op.a, st.y)
       [] op.op = "v" -> to(st.x, st.y + op.a)
       [] op.op = "V" -> to(st.x, op.a)
       [] op.op = "l" -> to(st.x + op.a, st.y + op.b)
       [] op.op = "L" -> to(op.a, op.b)
       [] op.op \in {"z", "Z"} -> [st EXCEPT !.closed = TRUE]
       [] OTHER -> [st EXCEPT !.bad = TRUE],
     [x |-> 0, y |-> 0, vs |-> <<>>, bad |-> FALSE, closed |-> FALSE], ops)
RectOf(ops) ==
  LET p == PolyVertices(ops) IN
  IF p.bad \/ Len(p.vs) < 4 \/ ~(p.closed \/ p.vs[Len(p.vs)] = p.vs[1]) THEN <<>> ELSE
  LET xs == {p.vs[i][1] : i \in 1..Len(p.vs)} ys == {p.vs[i][2] : i \in 1..Len(p.vs)} IN
  IF Cardinality(xs) # 2 \/ Cardinality(ys) # 2 \/ Cardinality({p.vs[i] : i \in 1..Len(p.vs)}) # 4 THEN <<>> ELSE
  LET x0 == CHOOSE x \in xs : \A z \in xs : x <= z  x1 == CHOOSE x \in xs : \A z \in xs : x >= z
      y0 == CHOOSE y \in ys : \A z \in ys : y <= z  y1 == CHOOSE y \in ys : \A z \in ys : y >= z
  IN <<x0, y0, x1 - x0, y1 - y0>>
SeqSet(s) == {s[i] : i \in 1..Len(s)}
FlipRows(cells, rows) == [i \in 1..Len(cells) |-> <<rows - 1 - cells[i][1], cells[i][2]>>] \o <<>>

(* ---------------- SVG ---------------- *)
SvgFails(o, d) ==
  LET M == o.matrix n == Len(M) b == o.border cells == n + 2*b
      wantW == cells * o.scale_micro                      \* page width in micro-units
      tol == 2
      strokes == SelectSeq(d.paths, LAMBDA p : p.kind = "stroke")
      fills == SelectSeq(d.paths, LAMBDA p : p.kind = "fill")
      runs == [i \in 1..Len(strokes) |-> PenRun(strokes[i].ops, tol)] \o <<>>
      allcells == FoldLeft(LAMBDA a, i : a \o runs[i].cells, <<>>, Iota(Len(strokes)))
      got == SeqSet(allcells)
      wd == ColourOf(o.dark)
      bgok == IF o.light.kind = "none" \/ o.draw_transparent THEN Len(fills) = 0
              ELSE Len(fills) = 1 /\ RectOf(fills[1].ops) # <<>>
                   /\ LET rc == RectOf(fills[1].ops) IN rc[1] <= 0 /\ rc[2] <= 0 /\ rc[1] + rc[3] >= cells * U - tol /\ rc[2] + rc[4] >= cells * U - tol
                   /\ ShowsTol(fills[1].rgba, ColourOf(o.light), 2) /\ Near(fills[1].transform, o.scale_micro, tol)
      sizeok == IF o.omitsize THEN d.width = -1 /\ d.height = -1 /\ d.viewbox # <<>>
                ELSE Near(d.width, wantW, tol) /\ Near(d.height, wantW, tol) /\ d.unit = o.unit /\ ((o.unit # "") = (d.viewbox # <<>>))
      vbok == d.viewbox = <<>> \/ (d.viewbox[1] = 0 /\ d.viewbox[2] = 0 /\ Near(d.viewbox[3], wantW, tol) /\ Near(d.viewbox[4], wantW, tol))
  IN {c \in {"well_formed", "page", "transform", "path_grid", "cover_exact", "every_module_once", "inside_page", "dark_colour",
             "background", "xmldecl", "svgns", "trailing_newline", "title_desc", "version_attr"} :
        CASE c = "well_formed" -> ~(d.wellformed /\ d.root_ok)
          [] c = "page" -> ~(sizeok /\ vbok)
          [] c = "transform" -> \E i \in 1..Len(strokes) : ~Near(strokes[i].transform, o.scale_micro, tol)
          [] c = "path_grid" -> \E i \in 1..Len(strokes) : runs[i].bad
          [] c = "cover_exact" -> got # DarkCells(M, b)
          [] c = "every_module_once" -> Len(allcells) # Cardinality(got)
          [] c = "inside_page" -> \E p \in got : p[1] < 0 \/ p[1] >= cells \/ p[2] < 0 \/ p[2] >= cells
          [] c = "dark_colour" -> \E i \in 1..Len(strokes) : ~ShowsTol(strokes[i].rgba, wd, 2)
          [] c = "background" -> ~bgok
          [] c = "xmldecl" -> d.xmldecl # o.xmldecl
          [] c = "svgns" -> d.svgns # o.svgns
          [] c = "trailing_newline" -> d.nl # o.nl
          [] c = "title_desc" -> d.title # o.title \/ d.desc # o.desc
          [] c = "version_attr" -> d.version # o.version_attr}

(* ---------------- EPS ---------------- *)
\* d: [dsc_ok, bbox <<llx, lly, urx, ury>> (micro), scale (micro, U if none), ops (first moveto absolute, then m / l relative),
\*     stroke_rgb (<<r,g,b>> in 1/255 units x 1000, or <<>> for default black), bg_rgb (same or <<>>), eof_ok, stroked]
EpsFails(o, d) ==
  LET M == o.matrix n == Len(M) b == o.border cells == n + 2*b
      wantW == cells * o.scale_micro
      tol == 2
      run == PenRun(d.ops, tol)
      got == SeqSet(FlipRows(run.cells, cells))
      wd == ColourOf(o.dark) wl == ColourOf(o.light)
      ColOK(rgb, c) == Len(rgb) = 3 /\ \A k \in 1..3 : Near(rgb[k], Milli(c)[k], 600)     \* printed with 6 decimals of c/255
  IN {c \in {"well_formed", "page", "transform", "path_grid", "cover_exact", "every_module_once", "inside_page", "dark_colour", "background"} :
        CASE c = "well_formed" -> ~(d.dsc_ok /\ d.eof_ok /\ d.stroked /\ d.unknown = 0)
          [] c = "page" -> ~(d.bbox # <<>> /\ d.bbox[1] = 0 /\ d.bbox[2] = 0 /\ Near(d.bbox[3], wantW, tol) /\ Near(d.bbox[4], wantW, tol))
          [] c = "transform" -> ~Near(d.scale, o.scale_micro, tol)
          [] c = "path_grid" -> run.bad
          [] c = "cover_exact" -> got # DarkCells(M, b)
          [] c = "every_module_once" -> Len(run.cells) # Cardinality(got)
          [] c = "inside_page" -> \E p \in got : p[1] < 0 \/ p[1] >= cells \/ p[2] < 0 \/ p[2] >= cells
          [] c = "dark_colour" -> IF d.stroke_rgb = <<>> THEN ~(wd[1] = 0 /\ wd[2] = 0 /\ wd[3] = 0) ELSE ~ColOK(d.stroke_rgb, o.dark)
          [] c = "background" -> IF o.light.kind = "none" THEN d.bg_rgb # <<>> ELSE ~(d.bg_whole_page /\ ColOK(d.bg_rgb, o.light))}

(* ---------------- PDF ---------------- *)
\* d: [header_ok, xref_ok, length_ok, mediabox, scale (micro), translate <<tx, ty>> (micro), ops (M / L absolute, after translate),
\*     stroke_rgb / bg_rgb (x 1000 of 0..255), bg_rect <<x, y, w, h>> (micro, in the coordinates current when it is filled), ...]
PdfFails(o, d) ==
  LET M == o.matrix n == Len(M) b == o.border cells == n + 2*b
      wantW == cells * o.scale_micro
      tol == 2
      \* the path is given relative to the translated origin: shift it back
      shifted == [i \in 1..Len(d.ops) |-> IF d.ops[i].op \in {"M", "L"} THEN [d.ops[i] EXCEPT !.a = @ + d.translate[1], !.b = @ + d.translate[2]]
                                          ELSE d.ops[i]] \o <<>>
      run == PenRun(shifted, tol)
      got == SeqSet(FlipRows(run.cells, cells))
      wd == ColourOf(o.dark) wl == ColourOf(o.light)
      ColOK(rgb, c) == Len(rgb) = 3 /\ \A k \in 1..3 : Near(rgb[k], Milli(c)[k], 600)
  IN {c \in {"well_formed", "stream_length", "xref_offsets", "page", "transform", "path_grid", "cover_exact", "every_module_once",
             "inside_page", "dark_colour", "background"} :
        CASE c = "well_formed" -> ~(d.header_ok /\ d.objects_ok /\ d.stroked /\ d.unknown = 0)
          [] c = "stream_length" -> ~d.length_ok
          [] c = "xref_offsets" -> ~d.xref_ok
          [] c = "page" -> ~(d.mediabox # <<>> /\ d.mediabox[1] = 0 /\ d.mediabox[2] = 0 /\ Near(d.mediabox[3], wantW, tol) /\ Near(d.mediabox[4], wantW, tol))
          [] c = "transform" -> ~Near(d.scale, o.scale_micro, tol)
          [] c = "path_grid" -> run.bad
          [] c = "cover_exact" -> got # DarkCells(M, b)
          [] c = "every_module_once" -> Len(run.cells) # Cardinality(got)
          [] c = "inside_page" -> \E p \in got : p[1] < 0 \/ p[1] >= cells \/ p[2] < 0 \/ p[2] >= cells
          [] c = "dark_colour" -> IF d.stroke_rgb = <<>> THEN ~(wd[1] = 0 /\ wd[2] = 0 /\ wd[3] = 0) ELSE ~ColOK(d.stroke_rgb, o.dark)
          [] c = "background" -> IF o.light.kind = "none" THEN d.bg_rgb # <<>>
                                 ELSE ~(ColOK(d.bg_rgb, o.light) /\ d.bg_rect # <<>> /\ d.bg_rect[1] <= 0 /\ d.bg_rect[2] <= 0
                                        \* the rectangle must cover the whole page in the coordinate system in force when it is filled
                                        /\ d.bg_rect[1] + d.bg_rect[3] >= (IF d.bg_scaled THEN cells * U ELSE wantW) - tol
                                        /\ d.bg_rect[2] + d.bg_rect[4] >= (IF d.bg_scaled THEN cells * U ELSE wantW) - tol)}

(* ---------------- PGF / TikZ ---------------- *)
\* d: [syntax_ok, linewidth (micro), unit, colour (name or ""), segs: seq of <<x1, y1, x2, y2>> (micro, in the picture's unit)]
\* the picture has no declared page: rows are centred at y = -(b + r) * scale, columns span [(b + c) * scale, (b + c + 1) * scale]
TexFails(o, d) ==
  LET M == o.matrix n == Len(M) b == o.border cells == n + 2*b s == o.scale_micro
      tol == 3
      \* coordinate v is k * s (within tol): returns k, or -9999
      Mult(v) == LET k == IF v >= 0 THEN (v + s \div 2) \div s ELSE -((-v + s \div 2) \div s) IN
                 IF Near(v, k * s, tol + 185) /\ Near(v * 1, k * s, (tol * (IF k >= 0 THEN k ELSE -k)) + tol) THEN k ELSE -9999
      segcells(sg) == LET c1 == Mult(sg[1]) c2 == Mult(sg[3]) r == Mult(-sg[2]) IN
                      IF c1 = -9999 \/ c2 = -9999 \/ r = -9999 \/ sg[2] # sg[4] \/ c2 <= c1 THEN <<>>
                      ELSE [k \in 1..(c2 - c1) |-> <<r, c1 + k - 1>>] \o <<>>
      per == [i \in 1..Len(d.segs) |-> segcells(d.segs[i])] \o <<>>
      allcells == FoldLeft(LAMBDA a, i : a \o per[i], <<>>, Iota(Len(per)))
      got == SeqSet(allcells)
  IN {c \in {"well_formed", "transform", "path_grid", "cover_exact", "every_module_once", "dark_colour", "unit"} :
        CASE c = "well_formed" -> ~d.syntax_ok
          [] c = "transform" -> ~Near(d.linewidth, s, tol)
          [] c = "path_grid" -> \E i \in 1..Len(per) : per[i] = <<>>
          [] c = "cover_exact" -> got # DarkCells(M, b)
          [] c = "every_module_once" -> Len(allcells) # Cardinality(got)
          [] c = "dark_colour" -> d.colour # o.tex_colour
          [] c = "unit" -> d.unit # o.unit}

VectorFails(o) ==
  CASE o.kind = "svg" -> SvgFails(o, o.doc)
    [] o.kind = "eps" -> EpsFails(o, o.doc)
    [] o.kind = "pdf" -> PdfFails(o, o.doc)
    [] o.kind = "tex" -> TexFails(o, o.doc)

(* ---------------- C11: module iteration and per-type colouring ---------------- *)
\* ISO type of a canvas cell as the TYPE_* code of segno.consts in its dark / light variant
TypeBase(cls) == CASE cls = "data" -> 4 [] cls = "finder" -> 6 [] cls = "separator" -> 8 [] cls = "alignment" -> 10
                   [] cls = "timing" -> 12 [] cls = "format" -> 14 [] cls = "version" -> 16 [] cls = "dark" -> 2 [] cls = "quiet" -> 18
TypeCode(cls, val) == IF cls \in {"separator", "quiet"} THEN TypeBase(cls)
                      ELSE IF cls = "dark" THEN 512
                      ELSE IF val = 1 THEN TypeBase(cls) * 256 ELSE TypeBase(cls)
CellClass(g, b, y, x) == LET r == y - b c == x - b IN IF r >= 0 /\ r < g.n /\ c >= 0 /\ c < g.n THEN ClassG(g, r, c) ELSE "quiet"
\* o.rows: what matrix_iter yielded; o.verbose
IterFails(o) ==
  LET M == o.matrix n == Len(M) b == o.border s == o.scale w == (n + 2*b) * s g == Geo(VersionOfSize(n))
      okshape == Len(o.rows) = w /\ \A y \in 1..w : Len(o.rows[y]) = w
      Want(y, x) == LET v == Cell(M, b, y \div s, x \div s) IN
                    IF o.verbose THEN TypeCode(CellClass(g, b, y \div s, x \div s), v) ELSE v
      bad == IF ~okshape THEN {} ELSE {<<y, x>> \in (0..w-1) \X (0..w-1) : o.rows[y+1][x+1] # Want(y, x)}
      KnownFmt(p) == ~IsMicro(g.v) /\ s = 1 /\ p = <<b + 8, b + n - 9>>    \* (8, n-9): a data module reported as format information
  IN {c \in {"dimensions", "values", "types", "dark_bit"} :
        CASE c = "dimensions" -> ~okshape
          [] c = "values" -> ~o.verbose /\ bad # {}
          [] c = "types" -> o.verbose /\ bad # {}
          [] c = "dark_bit" -> o.verbose /\ okshape /\ \E y \in 0..w-1 : \E x \in 0..w-1 :
                                  ((o.rows[y+1][x+1] \div 256) # 0) # (Cell(M, b, y \div s, x \div s) = 1)}
IterBadCells(o) ==
  LET M == o.matrix n == Len(M) b == o.border s == o.scale w == (n + 2*b) * s g == Geo(VersionOfSize(n)) IN
  {<<y, x>> \in (0..w-1) \X (0..w-1) : o.rows[y+1][x+1] # TypeCode(CellClass(g, b, y \div s, x \div s), Cell(M, b, y \div s, x \div s))}
\* o.cellrgba: the colour shown for every canvas cell (projection of a colourful PNG / PPM at scale 1, or SVG strokes),
\* o.colours: [finder_dark |-> colour arg or [kind |-> "unset"], ...], o.dark / o.light the fallbacks
OptName(cls, val) == CASE cls = "separator" -> "separator" [] cls = "quiet" -> "quiet_zone" [] cls = "dark" -> "dark_module"
                       [] OTHER -> cls \o (IF val = 1 THEN "_dark" ELSE "_light")
WantColour(o, g, y, x) ==
  LET M == o.matrix b == o.border v == Cell(M, b, y, x) cls == CellClass(g, b, y, x) opt == o.colours[OptName(cls, v)] IN
  IF opt.kind = "unset" THEN ColourOf(IF v = 1 /\ cls # "quiet" /\ cls # "separator" THEN o.dark ELSE o.light) ELSE ColourOf(opt)
\* colour the document shows at canvas cell (y, x) (module units); <<0,0,0,0>> = nothing painted; <<-2,..>> = painted twice
\* raster kinds: every pixel of the cell must agree (else <<-3,..>>)
TypedCellColours(o) ==
  LET M == o.matrix n == Len(M) b == o.border w == n + 2*b s == o.scale d == o.doc IN
  CASE o.kind = "png" ->
         LET rows == PngRows(d)
             px(y, x) == PngPixel(d, rows[y+1], x)
         IN [y \in 0..w-1 |-> [x \in 0..w-1 |->
               IF \A dy \in 0..s-1 : \A dx \in 0..s-1 : px(y*s + dy, x*s + dx) = px(y*s, x*s) THEN px(y*s, x*s) ELSE <<-3, -3, -3, -3>>]]
    [] o.kind = "ppm" ->
         LET W == w * s px(y, x) == LET p == 3 * (y * W + x) IN <<d.data[p+1], d.data[p+2], d.data[p+3], 255>>
         IN [y \in 0..w-1 |-> [x \in 0..w-1 |->
               IF \A dy \in 0..s-1 : \A dx \in 0..s-1 : px(y*s + dy, x*s + dx) = px(y*s, x*s) THEN px(y*s, x*s) ELSE <<-3, -3, -3, -3>>]]
    [] o.kind = "svg" ->
         LET strokes == SelectSeq(d.paths, LAMBDA p : p.kind = "stroke")
             painted == FoldLeft(LAMBDA acc, i : LET run == PenRun(strokes[i].ops, 2) IN
                                   FoldLeft(LAMBDA a2, c : IF c[1] < 0 \/ c[1] >= w \/ c[2] < 0 \/ c[2] >= w THEN a2
                                                           ELSE [a2 EXCEPT ![c[1]][c[2]] = IF @ = <<0,0,0,0>> THEN strokes[i].rgba ELSE <<-2,-2,-2,-2>>],
                                            acc, run.cells),
                                 [y \in 0..w-1 |-> [x \in 0..w-1 |-> <<0,0,0,0>>]], Iota(Len(strokes)))
         IN painted
\* SVG prints the opacity of a stroke with two decimals (see ShowsTol)
TypedShows(o, got, want) == IF o.kind = "svg" THEN ShowsTol(got, want, 2) ELSE Shows(got, want)
TypedFails(o) ==
  LET M == o.matrix n == Len(M) b == o.border w == n + 2*b s == o.scale g == Geo(VersionOfSize(n)) d == o.doc
      container == CASE o.kind = "png" -> PngContainerOK(d) /\ PngShapeOK(d, w * s)
                     [] o.kind = "ppm" -> d.header_ok /\ d.width = w * s /\ d.height = w * s /\ Len(d.data) = 3 * w * s * w * s /\ d.maxval = 255
                     [] o.kind = "svg" -> d.wellformed /\ d.root_ok
                                          /\ \A i \in 1..Len(d.paths) : d.paths[i].kind = "stroke" /\ ~PenRun(d.paths[i].ops, 2).bad
                                                                          /\ Near(d.paths[i].transform, o.scale_micro, 2)
      cc == IF container THEN TypedCellColours(o) ELSE <<>>
  IN {c \in {"container", "module_colours"} :
        CASE c = "container" -> ~container
          [] c = "module_colours" -> container /\ \E y \in 0..w-1 : \E x \in 0..w-1 : ~TypedShows(o, cc[y][x], WantColour(o, g, y, x))}
TypedBadCells(o) ==
  LET M == o.matrix n == Len(M) b == o.border w == n + 2*b g == Geo(VersionOfSize(n)) cc == TypedCellColours(o)
  IN {<<y, x>> \in (0..w-1) \X (0..w-1) : ~TypedShows(o, cc[y][x], WantColour(o, g, y, x))}

\* named deviations (known findings)
\* Dev_BlackWhiteIntAlpha1Opaque (KF-C10-1): writers._color_is_black / _color_is_white compare with (0, 0, 0, 1.0) / (255, 255, 255, 1.0);
\* as 1 == 1.0 the nearly transparent (0, 0, 0, 1) and (255, 255, 255, 1) are written as opaque #000 / #fff in SVG.  The deviation
\* explains an observation iff exactly the colour clauses fail and every clause holds once these colours are read as opaque.
IntAlpha1BW(c) == c.kind = "tuple" /\ (c.v = <<0, 0, 0, 1>> \/ c.v = <<255, 255, 255, 1>>)
ReadOpaque(c) == IF IntAlpha1BW(c) THEN [c EXCEPT !.v = SubSeq(@, 1, 3)] ELSE c
DevBlackWhiteIntAlpha1(o, fails) ==
  /\ o.family = "vector" /\ o.kind = "svg" /\ fails # {} /\ fails \subseteq {"dark_colour", "background"}
  /\ (IntAlpha1BW(o.dark) \/ IntAlpha1BW(o.light))
  /\ VectorFails([o EXCEPT !.dark = ReadOpaque(@), !.light = ReadOpaque(@)]) = {}
DevsOf(o, fails) ==
  {x \in {"Dev_BlackWhiteIntAlpha1Opaque"} : DevBlackWhiteIntAlpha1(o, fails)} \cup
  {x \in {"Dev_FormatTypeAt_8_nminus9"} :
      /\ o.family \in {"iter", "typed"} /\ fails # {} /\ Len(o.matrix) >= 21
      /\ IF o.family = "iter" THEN fails = {"types"} /\
              LET s == o.scale r0 == (o.border + 8) * s c0 == (o.border + Len(o.matrix) - 9) * s IN
              /\ IterBadCells(o) = {<<r0 + dy, c0 + dx>> : dy \in 0..s-1, dx \in 0..s-1}
              /\ o.rows[r0 + 1][c0 + 1] = TypeCode("format", o.matrix[9][Len(o.matrix) - 8])
         ELSE fails = {"module_colours"} /\ TypedBadCells(o) = {<<o.border + 8, o.border + Len(o.matrix) - 9>>}}
=============================================================================
