CONSTANTS
  Scope = "trace"
  BVersions <- Nothing
  SmallMaxN = 0
  SmallVersions <- Nothing
  VSels <- Nothing
  Slim = FALSE
  Variants <- NoSeq
  PartPool <- PoolHanzi
  MaxParts = 2
  ReqModesMP = {"hanzi", "none"}
  ReqVersionsMP <- VersionsMP
  ReqLevelsMP = {"-", "M"}
  ReqMicroMP = {"none", "no"}
  ReqEci = {FALSE}
  ReqBoostMP = {TRUE}
  AllowDevPadMP = TRUE
INIT MInit
NEXT MNext
CHECK_DEADLOCK FALSE
INVARIANT C01_PayloadMP
INVARIANT C01_EciMP
INVARIANT C04_SmallestMP
INVARIANT C05_LevelMP
INVARIANT C13_TailMP
INVARIANT MExport
