----------------------------- MODULE Trace_Sym -----------------------------
(***************************************************************************)
(* Trace validation of symbol observations (code -> spec).                 *)
(* The trace file (JSON array, path in environment variable TRACE_FILE)    *)
(* holds one observation per public call that returned a symbol.  Each     *)
(* observation is an initial state; the single step Judge evaluates the    *)
(* property clauses on the observed state and emits a total verdict.       *)
(* The run is accepted only if every observation was judged                *)
(* (POSTCONDITION AllJudged).                                              *)
(***************************************************************************)
EXTENDS SymCheck, Json, IOUtils, TLCExt

Obs == JsonDeserialize(IOEnv.TRACE_FILE)
N == Len(Obs)

VARIABLES tid, judged
vars == <<tid, judged>>

Init == tid \in 1..N /\ judged = FALSE
Judge == /\ ~judged
         /\ judged' = TRUE
         /\ tid' = tid
         /\ PrintT(<<"VERDICT", ToJson(SymVerdict(Obs[tid]))>>)
Next == Judge
Spec == Init /\ [][Next]_vars
AllJudged == TLCGet("distinct") = 2 * N
=============================================================================
