"""C09 (raster / text outputs), C10 (vector outputs), C11 (module iteration, per-type colours)."""
import io
import json
import multiprocessing as mp
from . import common, symobs, gen, engine, project
from . import tables as T

BINARY = {'png', 'pbm', 'pam', 'ppm', 'pdf', 'svg'}
_SYMS = {}


def symbol_for(version, seed_):
    """A symbol of the given version (cached per process), content seeded."""
    if isinstance(version, (list, tuple)) and version[0] == 'empty':
        qr = symbol_with_empty_row(version[1], seed_)
        return qr if qr is not None else symbol_for(version[1], seed_)
    if isinstance(version, (list, tuple)) and version[0] == 'crafted':
        return crafted_symbol(version[1], version[2], version[3], seed_)
    key = (version, seed_)
    if key not in _SYMS:
        segno = common.use_repo()
        r = gen.rng(seed_, 'sym', version)
        v = symobs.version_int(version) if isinstance(version, str) else version
        e = T.levels_of(v)[0]
        mode = 'numeric' if v == -3 else 'alphanumeric' if v == -2 else 'byte'
        n = max(1, T.max_chars(v, e, mode) * 2 // 3)
        kw = {'version': version, 'boost_error': False}
        if e != '-':
            kw['error'] = e
        _SYMS[key] = segno.make(gen.content_for_mode(r, mode, n), **kw)
    return _SYMS[key]


def crafted_symbol(version, pattern, mask, seed_):
    """A symbol of the given version whose DATA modules are overwritten with an adversarial pattern; every function pattern, the format
    and the version information stay exactly as the implementation drew them (the data-module map comes from the specification).
    The serialisers must show any such matrix correctly: they know nothing about Reed-Solomon."""
    key = ('crafted', version, pattern, mask, seed_)
    if key not in _SYMS:
        segno = common.use_repo()
        v = symobs.version_int(version) if isinstance(version, str) else version
        kw = {'version': version, 'mask': mask, 'boost_error': False}
        qr = segno.make('1' if v < 1 else 'CRAFTED', **kw)
        dm = T.datamap(v)
        m = qr.matrix                      # tuple of bytearrays: modified in place
        n = len(m)
        for r in range(n):
            for c in range(n):
                if not dm[r][c]:
                    continue
                if pattern == 'rowcopy':
                    m[r][c] = m[r - 1][c] if r else m[r][c]
                elif pattern == 'colcopy':
                    m[r][c] = m[r][c - 1] if c else m[r][c]
                elif pattern == 'dark':
                    m[r][c] = 1
                elif pattern == 'light':
                    m[r][c] = 0
                elif pattern == 'checker':
                    m[r][c] = (r + c) % 2
                elif pattern == 'rows':
                    m[r][c] = r % 2
        _SYMS[key] = qr
    return _SYMS[key]


def symbol_with_empty_row(version, seed_):
    """A symbol of the given version that has a row without any dark module (searching seeded contents); None if not found."""
    key = ('empty', version, seed_)
    if key not in _SYMS:
        segno = common.use_repo()
        found = None
        for i in range(400):
            try:
                qr = segno.make(str(i * 7 + seed_ % 5) if version == 'M1' else ('SEGNO %d' % (i * 3 + seed_ % 7)), version=version,
                                **({} if version == 'M1' else {'error': 'L', 'boost_error': False}))
            except ValueError:
                continue
            if any(not any(row) for row in qr.matrix):
                found = qr
                break
        _SYMS[key] = found
    return _SYMS[key]


def effective_border(qr, border):
    return border if border is not None else (2 if qr.is_micro else 4)


def save_to_memory(qr, kind, kw):
    buf = io.BytesIO() if kind in BINARY else io.StringIO()
    qr.save(buf, kind=kind, **kw)
    return buf.getvalue()


def seq_terminal_obs(spec):
    """spec: {version: ['seq', content, sequence kw, index], kind: 'seq_ans' | 'seq_compact', kw: {border}}: the part of the output of
    QRCodeSequence.terminal(out=stream, ...) that belongs to symbol `index`, judged like the terminal output of that symbol"""
    segno = common.use_repo()
    _tag, content, seqkw, idx = spec['version']
    seq = segno.make_sequence(content, **seqkw)
    qr = seq[idx]
    kw = spec['kw']
    compact = spec['kind'] == 'seq_compact'
    o = {'_spec': spec, 'family': 'raster', 'prop': 'C09', 'kind': 'compact' if compact else 'ans', 'matrix': [list(r) for r in qr.matrix],
         'border': effective_border(qr, kw.get('border')), 'scale': 1, 'dpi': -1, 'outcome': {'status': 'ok'},
         'dark': project.colour_arg('#000'), 'light': project.colour_arg('#fff'), '_scale_requested': 1}
    try:
        out = io.StringIO()
        seq.terminal(out=out, border=kw.get('border'), compact=compact)
        lines = out.getvalue().split('\n')
        total = len(lines) - 1
        per = total // len(seq) if len(seq) and total % len(seq) == 0 else total      # an output that does not split evenly is judged as a whole
        chunk = '\n'.join(lines[idx * per:(idx + 1) * per] + [''])
        o['doc'] = project.compact(chunk) if compact else project.ansi(chunk)
    except Exception as e:  # noqa
        o['outcome'] = symobs.outcome_of_exception(e)
    o['_cost'] = (len(o['matrix']) + 2 * o['border']) ** 2
    return o


def raster_obs(spec):
    """spec: {version, kind, kw, seed}; kind in png pbm pam ppm xbm xpm txt ans compact (seq_ans / seq_compact: see seq_terminal_obs)."""
    if spec['kind'] in ('seq_ans', 'seq_compact'):
        return seq_terminal_obs(spec)
    qr = symbol_for(spec['version'], spec['seed'])
    kind, kw = spec['kind'], {k: tuple(v) if isinstance(v, list) else v for k, v in spec['kw'].items()}     # replay files hold tuples as lists
    o = {'_spec': spec, 'family': 'raster', 'prop': 'C09', 'kind': kind, 'matrix': [list(r) for r in qr.matrix],
         'border': effective_border(qr, kw.get('border')), 'scale': 1, 'dpi': -1, 'outcome': {'status': 'ok'}}
    sc = kw.get('scale', 1)
    o['scale'] = int(sc)
    o['_scale_requested'] = sc
    defaults = {'png': ('#000', '#fff'), 'ppm': ('#000', '#fff'), 'pam': ('#000', '#fff'), 'xpm': ('#000', '#fff')}
    dd, dl = defaults.get(kind, ('#000', '#fff'))
    try:
        if kind != 'txt':          # the dark / light arguments of the text writer are cell strings, not colours
            o['dark'] = project.colour_arg(kw.get('dark', dd))
            o['light'] = project.colour_arg(kw.get('light', dl))
        if kind == 'compact':
            out = io.StringIO()
            qr.terminal(out=out, border=kw.get('border'), compact=True)
            o['doc'] = project.compact(out.getvalue())
        elif kind == 'ans':
            out = io.StringIO()
            qr.terminal(out=out, border=kw.get('border'))
            o['doc'] = project.ansi(out.getvalue())
        else:
            data = save_to_memory(qr, kind, kw)
            if kind == 'png':
                o['doc'] = project.png(data)
                if kw.get('dpi'):
                    o['dpi'] = int(kw['dpi'])
            elif kind == 'pbm':
                o['doc'] = project.pbm(data)
            elif kind == 'pam':
                o['doc'] = project.pam(data)
            elif kind == 'ppm':
                o['doc'] = project.ppm(data)
            elif kind == 'xbm':
                o['doc'] = project.xbm(data)
            elif kind == 'xpm':
                o['doc'] = project.xpm(data)
            elif kind == 'txt':
                o['doc'] = project.txt(data, kw.get('dark', '1'), kw.get('light', '0'))
                o['dark'] = project.colour_arg('#000')
                o['light'] = project.colour_arg('#fff')
    except Exception as e:  # noqa
        o['outcome'] = symobs.outcome_of_exception(e)
    o['_cost'] = (len(o['matrix']) + 2 * o['border']) ** 2 * max(1, o['scale']) ** 2
    return o


PNG_COLOURS = [({}, 'default'), ({'dark': 'darkblue', 'light': 'yellow'}, 'names'), ({'dark': '#36c', 'light': '#FFFFFF'}, 'hex'),
               ({'dark': '#00000080', 'light': '#ffffff'}, 'hex alpha'), ({'dark': (10, 20, 30), 'light': (250, 240, 230)}, 'tuples'),
               ({'dark': (10, 20, 30, 100), 'light': 'white'}, 'tuple alpha'), ({'dark': 'black', 'light': None}, 'transparent light'),
               ({'dark': None, 'light': 'white'}, 'transparent dark'), ({'dark': 'red', 'light': None}, 'colour + transparent'),
               ({'dark': '#fff', 'light': '#000'}, 'inverted'), ({'dark': 'green', 'light': 'green'}, 'same colour'),
               ({'dark': (0, 0, 0, 0.5), 'light': 'white'}, 'float alpha'), ({'dark': '#f00', 'light': '#0f08'}, 'hex4 alpha'),
               ({'dark': 'Red', 'light': 'WHITE'}, 'name case'), ({'dark': 'white', 'light': '#fff'}, 'all white'),
               ({'dark': '#000', 'light': (0, 0, 0)}, 'all black'), ({'dark': None, 'light': None}, 'all transparent')]
PAM_COLOURS = [{}, {'dark': 'darkblue', 'light': 'yellow'}, {'light': None}, {'dark': 'red', 'light': None}, {'dark': '#fff', 'light': '#000'},
               {'dark': '#640000', 'light': '#000'}, {'dark': (10, 20, 30), 'light': (40, 50, 60)}, {'dark': '#00000080'}, {'dark': 'white', 'light': None},
               {'dark': (128, 128, 128)}, {'light': (238, 238, 238)}, {'dark': '#777', 'light': None}, {'dark': 'gray', 'light': 'silver'},
               {'dark': (10, 20, 30, 1.0)}, {'dark': (10, 20, 30, 1)}, {'dark': (0, 0, 0, 1)}, {'dark': (0, 0, 0, 1.0)}]
XPM_COLOURS = [{}, {'dark': 'darkblue', 'light': 'yellow'}, {'light': None}, {'dark': '#36c', 'light': (1, 2, 3)}, {'dark': None, 'light': 'white'},
               {'dark': (10, 20, 30, 1.0)}, {'dark': 'gray'}]
PPM_COLOURS = [{}, {'dark': 'darkblue', 'light': 'yellow'}, {'dark': '#36c', 'light': (1, 2, 3)}, {'dark': 'white', 'light': 'black'}]


def gen_raster(tier, seed_):
    r = gen.rng(seed_, 'C09')
    specs = []
    versions = ['M1', 'M2', 'M3', 'M4', 1, 2, 3]
    borders = [None, 0, 1, 2, 3, 4]
    scales = [1, 2, 3, 5, 8]

    def add(kind, version, kw):
        specs.append({'version': version, 'kind': kind, 'kw': kw, 'seed': seed_})
    reps = 1 if tier == 'quick' else 6
    for _ in range(reps):
        for v in versions:
            for b in borders:
                for s in scales:
                    base = {'scale': s}
                    if b is not None:
                        base['border'] = b
                    # PNG: colour sets rotate so that every (size, border, scale) is rendered, every colour kind many times
                    ck, _name = r.choice(PNG_COLOURS)
                    kw = dict(base, **ck)
                    if r.random() < 0.2:
                        kw['dpi'] = r.choice((72, 150, 300, 600))
                    if r.random() < 0.2:
                        kw['compresslevel'] = r.choice((0, 1, 9))
                    add('png', v, kw)
                    add('pbm', v, dict(base, plain=r.choice((True, False))))
                    add('pam', v, dict(base, **r.choice(PAM_COLOURS)))
                    add('xbm', v, dict(base))
                    if s <= 3:
                        add('ppm', v, dict(base, **r.choice(PPM_COLOURS)))
                        add('xpm', v, dict(base, **r.choice(XPM_COLOURS)))
                if b is None or b <= 4:
                    bkw = {} if b is None else {'border': b}
                    add('txt', v, dict(bkw))
                    add('txt', v, dict(bkw, dark='#', light='.'))
                    if b is None:
                        # the cell strings are free: the digits swapped, a digit only on one side, numbers, cells wider than one character
                        for dk, lt in (('0', '1'), ('A', '1'), ('0', 'B'), ('1', ' '), (1, 0), (0, 1), (7, '1'), ('##', '..'), ('10', '01'), ('1', '0')):
                            add('txt', v, dict(bkw, dark=dk, light=lt))
                    add('ans', v, dict(bkw))
                    add('compact', v, dict(bkw))
    # every PNG colour set on one symbol; non-integral scales (truncated); every residue of the row length mod 8
    for ck, _name in PNG_COLOURS:
        for s in (1, 4):
            add('png', 1, dict(ck, scale=s, border=r.choice((0, 1, 4))))
    for s in (1.0, 2.7, 3.999, 16, 24):
        for kind in ('png', 'pbm', 'pam', 'ppm', 'xbm', 'xpm'):
            if kind in ('ppm', 'xpm') and s > 8:
                continue
            add(kind, 'M2', {'scale': s, 'border': 2})
            add(kind, 1, {'scale': s})
    # the terminal output of a sequence written to a stream: every symbol with the requested quiet zone, one after the other
    for content, seqkw, n in (('HELLO WORLD ' * 3, {'version': 1}, 2), ('12345', {'version': 2}, 1), ('sequence of two symbols', {'symbol_count': 2}, 2)):
        for b in (None, 0, 1, 3):
            for kind in ('seq_ans', 'seq_compact'):
                for i in range(n):
                    add(kind, ['seq', content, seqkw, i], {} if b is None else {'border': b})
    big = [5, 10, 20, 40] if tier == 'quick' else list(range(4, 41))
    for v in big:
        add('png', v, {'scale': 1})
        add('pbm', v, {'scale': 1, 'border': 1})
        add('txt', v, {})
        add('compact', v, {'border': 0})
    if tier == 'thorough':
        add('png', 40, {'scale': 3, 'dark': 'darkred', 'light': None})
    # the middle of every range: random (version, scale, border) away from the table boundaries, picture width limited to 400 pixels
    allv = ['M1', 'M2', 'M3', 'M4'] + list(range(1, 41))
    n_mid = 0
    while n_mid < (70 if tier == 'quick' else 700):
        v = r.choice(allv)
        size = (9 + 2 * (allv.index(v) + 1)) if isinstance(v, str) else 17 + 4 * v
        sc, b = r.randint(1, 13), r.randint(0, 11)
        if (size + 2 * b) * sc > 400:
            continue
        kind = r.choice(('png', 'png', 'pbm', 'pam', 'ppm', 'xbm', 'xpm', 'txt', 'ans', 'compact'))
        kw = {'border': b}
        if kind not in ('txt', 'ans', 'compact'):
            kw['scale'] = sc
        if kind == 'png':
            kw.update(r.choice(PNG_COLOURS)[0])
            if r.random() < 0.3:
                kw['dpi'] = r.choice((72, 150, 299, 600))
        elif kind == 'pam':
            kw.update(r.choice(PAM_COLOURS))
        elif kind == 'ppm':
            kw.update(r.choice(PPM_COLOURS))
        elif kind == 'xpm':
            kw.update(r.choice(XPM_COLOURS))
        elif kind == 'pbm':
            kw['plain'] = r.choice((True, False))
        add(kind, v, kw)
        n_mid += 1
    return specs


class RenderTimeout(Exception):
    pass


_TIMEOUTS = [0]


def _render_alarm(signum, frame):
    _TIMEOUTS[0] += 1
    raise RenderTimeout('no document within the time limit (60 s; 3 s after three time-outs in the same worker process)')


def _limited(a):
    """one observation under a time limit: a serialiser that does not come back is an outcome of that call (reported like any other
    unexpected exception), not a check that never ends"""
    import signal
    fn, spec = a
    old = signal.signal(signal.SIGALRM, _render_alarm)
    signal.alarm(60 if _TIMEOUTS[0] < 3 else 3)
    try:
        return fn(spec)
    finally:
        signal.alarm(0)
        signal.signal(signal.SIGALRM, old)


def run_pool(fn, specs):
    if len(specs) < 8:
        return [_limited((fn, s)) for s in specs]
    with mp.get_context('fork').Pool(common.NCPU) as pool:
        return pool.map(_limited, [(fn, s) for s in specs], chunksize=max(1, len(specs) // 256))


def run_session(fn, specs):
    """all specs in ONE freshly forked process, in order: documents must not depend on what was rendered before (caches keyed by
    equal-comparing arguments, module-level iterators that are used up, ...)"""
    if not specs:
        return []
    with mp.get_context('fork').Pool(1) as pool:
        return pool.map(_limited, [(fn, s) for s in specs], chunksize=len(specs))


def brief_spec(s):
    return f"{s['kind']} of version {s['version']} with {s['kw']}"


def judge_docs(rep, obs, refusal_expected=None):
    """obs with outcome ok go to TLC (Trace_Render); refusals are judged by `refusal_expected(spec)`."""
    ok = [o for o in obs if o['outcome']['status'] == 'ok' and 'doc' in o or o.get('family') in ('iter', 'typed') and o['outcome']['status'] == 'ok']
    verdicts, st = common.validate_observations(rep.pid, 'Trace_Render', ok, tag='render', timeout=3000)
    rep.add_trace_stats(st, len(ok))
    for o in obs:
        spec = o['_spec']
        if o['outcome']['status'] != 'ok':
            must_refuse = refusal_expected(spec) if refusal_expected else False
            is_ve = 'ValueError' in o['outcome'].get('mro', [])
            if (must_refuse or spec.get('may_refuse')) and is_ve:
                rep.keys.add(('refused', spec['kind'], json.dumps(spec['kw'], sort_keys=True, default=str)))
                continue
            rep.violation({'kind': 'render', 'module': 'props_render', 'spec': spec, 'failing_clauses': ['unexpected_exception'], 'observed': o['outcome']},
                          f"{brief_spec(spec)} raised {o['outcome'].get('exc')}: {o['outcome'].get('msg', '')[:100]}")
            continue
        if refusal_expected and refusal_expected(spec):
            rep.violation({'kind': 'render', 'module': 'props_render', 'spec': spec, 'failing_clauses': ['should_have_been_refused']},
                          f"{brief_spec(spec)} was accepted although it must be refused")
            continue
        v = verdicts[o['tid']]
        fails = sorted(c for (p, c) in v['fails'])
        rep.keys.add((o['kind'], len(o['matrix']), o['border'], o.get('scale', o.get('scale_micro')), json.dumps(spec['kw'], sort_keys=True, default=str)))
        rep.sample({'document': brief_spec(spec), 'tlc_fails': fails})
        if fails:
            kf = engine.match_known(rep.pid, fails, v.get('devs', []), rep.known)
            if kf:
                rep.known_hit(kf, {'doc': brief_spec(spec), 'clauses': fails})
            else:
                rep.violation({'kind': 'render', 'module': 'props_render', 'spec': spec, 'failing_clauses': fails, 'deviations': v.get('devs', [])},
                              f"{brief_spec(spec)}: fails {fails}")


def run_c09(rep, tier):
    specs = gen_raster(tier, common.seed())
    rep.evaluations = len(specs)
    obs = run_pool(raster_obs, specs)
    # one long session in a single process: 200 (thorough: 1000) small images, transparent / alpha / palette colour combinations in rotation
    combos = [{'dark': '#00008b80', 'light': None}, {'dark': None, 'light': (255, 255, 0, 0.5)}, {'dark': (0, 0, 139, 1), 'light': None},
              {'dark': (0, 0, 139, 1.0), 'light': None}, {'dark': None}, {'light': None}, {'dark': '#000', 'light': '#fff'}, {'dark': 'black', 'light': 'white'},
              {'dark': (0, 0, 0), 'light': (255, 255, 255)}, {'dark': '#0008', 'light': None}, {'dark': 'red', 'light': None, 'finder_dark': '#00f8'},
              {'dark': (1, 2, 3, 0.25), 'light': None}]
    sess = []
    for i in range(200 if tier == 'quick' else 1000):
        kind = ('png', 'png', 'png', 'pam', 'ppm', 'xpm')[i % 6] if i % 12 >= 2 else 'png'
        kw = dict(combos[i % len(combos)])
        if kind == 'ppm':
            kw = {k: v for k, v in kw.items() if v is not None and not (isinstance(v, tuple) and len(v) == 4) and not (isinstance(v, str) and len(v) in (5, 9))}
        if kind == 'xpm':
            kw = {k: v for k, v in kw.items() if not (isinstance(v, tuple) and len(v) == 4)}
        if kind in ('pam', 'xpm'):
            kw.pop('finder_dark', None)
        sess.append({'version': ('M2', 1)[i % 2], 'kind': kind, 'kw': dict(kw, scale=1 + i % 2), 'seed': common.seed(), 'family': 'raster'})
    for v in (2, 'M2', 7) if tier == 'quick' else (1, 2, 3, 4, 5, 7, 'M1', 'M2', 'M3', 'M4'):
        for pattern in ('rowcopy', 'colcopy', 'dark', 'light', 'checker', 'rows'):
            for kind, kw in (('png', {'scale': 1}), ('png', {'scale': 3, 'dark': 'darkblue', 'light': None}), ('pbm', {'scale': 2}), ('pbm', {'plain': True}),
                             ('pam', {'dark': (1, 2, 3, 128)}), ('ppm', {'scale': 2}), ('xbm', {}), ('xpm', {'scale': 2}), ('txt', {}), ('ans', {}), ('compact', {})):
                sess.append({'version': ['crafted', v, pattern, 1], 'kind': kind, 'kw': dict(kw, border=(0, 1, 4)[len(sess) % 3]), 'seed': common.seed(), 'family': 'raster'})
    # many images of ONE colour shape in a row (one colour transparent, the other translucent): nothing may be used up
    shapes = [{'dark': '#00008b80', 'light': None}, {'dark': None, 'light': (255, 255, 0, 0.5)}, {'dark': (0, 0, 139, 7), 'light': None},
              {'dark': '#0008', 'light': None}, {'dark': (1, 2, 3, 0.25), 'light': None}]
    for i in range(180 if tier == 'quick' else 900):
        sess.append({'version': ('M1', 'M2')[i % 2], 'kind': 'png', 'kw': dict(shapes[i % len(shapes)]), 'seed': common.seed(), 'family': 'raster'})
    for a in list(range(0, 256, 1 if tier == 'thorough' else 5)) + [1, 2, 16, 254]:
        sess.append({'version': 'M1', 'kind': ('png', 'pam')[a % 2], 'kw': {'dark': (0, 0, 139, a)}, 'seed': common.seed(), 'family': 'raster'})
    for a in (0, 1, 2, 16, 128, 254, 255, 0.0, 0.5, 1.0):
        for rgb in ((0, 0, 0), (255, 255, 255), (255, 0, 0)):
            for kind in ('png', 'pam'):
                sess.append({'version': 'M1', 'kind': kind, 'kw': {'dark': rgb + (a,), 'light': (0, 128, 0)}, 'seed': common.seed(), 'family': 'raster'})
                sess.append({'version': 'M1', 'kind': kind, 'kw': {'light': rgb + (a,)}, 'seed': common.seed(), 'family': 'raster'})
    rep.evaluations += len(sess)
    obs += run_session(raster_obs, sess)
    judge_docs(rep, obs, refusal_expected=lambda s: s['kw'].get('scale', 1) < 1)
    rep.trusted += ['zlib inflate and CRC-32 (PNG chunks), header tokenisers of harness/project.py']
    rep.rule = ('sizes 11..29 x border {default,0..4} x scale {1,2,3,5,8} so that the row length covers all residues mod 8, for PNG (14 colour '
                'kinds incl. alpha / transparent / same colour, dpi, compresslevel), PBM P4/P1, PAM, PPM, XBM, XPM, TXT, ANSI, compact; '
                'non-integral scales; larger versions at scale 1; TLC un-filters / unpacks every file and compares every pixel / cell; '
                'distinct non-trivial = distinct (format, size, border, scale, options)')


def replay(pid, d):
    common.use_repo()
    spec = d['spec']
    fn = {'raster': raster_obs}.get(spec.get('family', 'raster'), raster_obs)
    if spec.get('family') == 'vector':
        fn = vector_obs
    elif spec.get('family') in ('iter', 'typed'):
        fn = typed_obs
    o = fn(spec)
    print('document:', brief_spec(spec))
    print('outcome :', o['outcome'])
    if o['outcome']['status'] != 'ok':
        return 1 if 'should' not in str(d.get('failing_clauses')) else 0
    verdicts, _ = common.validate_observations(pid + '_replay', 'Trace_Render', [o], shards=1, tag='render')
    v = verdicts[o['tid']]
    fails = sorted(c for (p, c) in v['fails'])
    print('verdict :', {'failing_clauses': fails, 'deviations': v.get('devs')})
    if not fails:
        return 0
    kf = engine.match_known(pid, fails, v.get('devs', []), common.load_known_findings())
    if kf:
        print(f"KNOWN-FINDING: property={pid} {kf['id']} {kf['what']}")
        return 0
    print(f'VIOLATION property={pid} replay=(this file)')
    return 1


# =============================================================================================== C10
def vector_obs(spec):
    qr = symbol_for(spec['version'], spec['seed'])
    kind, kw = spec['kind'], {k: tuple(v) if isinstance(v, list) else v for k, v in spec['kw'].items()}     # replay files hold tuples as lists
    sc = kw.get('scale', 1)
    o = {'_spec': spec, 'family': 'vector', 'prop': 'C10', 'kind': kind, 'matrix': [list(r) for r in qr.matrix],
         'border': effective_border(qr, kw.get('border')), 'scale_micro': project.um(sc), 'outcome': {'status': 'ok'}}
    try:
        o['dark'] = project.colour_arg(kw.get('dark', '#000')) if kind != 'tex' else {'kind': 'none'}
        o['light'] = project.colour_arg(kw.get('light'))
        data = save_to_memory(qr, kind, kw)
        if kind == 'svg':
            o['doc'] = project.svg(data)
            o.update({'omitsize': bool(kw.get('omitsize', False)), 'unit': kw.get('unit') or '', 'xmldecl': bool(kw.get('xmldecl', True)),
                      'svgns': bool(kw.get('svgns', True)), 'nl': bool(kw.get('nl', True)),
                      'title': [ord(c) for c in kw['title']] if kw.get('title') is not None else [-1],
                      'desc': [ord(c) for c in kw['desc']] if kw.get('desc') is not None else [-1],
                      'version_attr': str(kw['svgversion']) if kw.get('svgversion') is not None and kw['svgversion'] < 2.0 else '',
                      'draw_transparent': bool(kw.get('draw_transparent', False))})
        elif kind == 'eps':
            o['doc'] = project.eps(data)
        elif kind == 'pdf':
            o['doc'] = project.pdf(data)
        elif kind == 'tex':
            o['doc'] = project.tex(data)
            dk = kw.get('dark', 'black')
            o['tex_colour'] = dk if dk and dk != 'black' else ''
            o['unit'] = kw.get('unit', 'pt')
    except Exception as e:  # noqa
        o['outcome'] = symobs.outcome_of_exception(e)
    o['_cost'] = (len(o['matrix']) + 2 * o['border']) ** 2
    return o


VEC_COLOURS = [{}, {'dark': 'darkblue', 'light': 'yellow'}, {'dark': '#36c'}, {'light': '#eee'}, {'dark': (10, 20, 30), 'light': (250, 240, 230)},
               {'dark': 'red', 'light': 'tan'}, {'dark': '#fff', 'light': '#000'}, {'light': 'white'}, {'light': '#fff'}, {'light': (255, 255, 255)},
               {'light': '#FFFFFF', 'dark': 'navy'}]
SVG_OPTS = [{}, {'xmldecl': False}, {'svgns': False}, {'nl': False}, {'omitsize': True}, {'unit': 'mm'}, {'svgversion': 1.1}, {'svgversion': 2.0},
            {'title': 'A <title> & "quotes"', 'desc': "it's <desc> &amp; more"}, {'title': 'Caf&eacute; &nbsp; &#0; AT&T;'}, {'title': ''},
            {'draw_transparent': True}, {'svgclass': None, 'lineclass': None}, {'svgid': 'qr1', 'svgclass': 'a b'},
            {'xmldecl': False, 'svgns': False, 'nl': False}, {'dark': '#00000080'}, {'dark': (10, 20, 30, 0.5), 'svgversion': 2.0},
            {'light': '#ffffff80'}, {'encoding': None}, {'encoding': 'iso-8859-1', 'title': 'Grüße'},
            # the four-digit notation #RGBA: translucent, and opaque (alpha digit f: the same colour as #RGB)
            {'dark': '#00f8'}, {'dark': '#f00f', 'light': '#0f08'}, {'dark': '#F008', 'svgversion': 2.0}, {'light': '#ffff'}]


def allv_index(v):
    return ['M1', 'M2', 'M3', 'M4'].index(v)


def gen_vector(tier, seed_):
    r = gen.rng(seed_, 'C10')
    specs = []
    versions = ['M1', 'M2', 'M3', 'M4', 1, 2, 3]
    scales = [1, 2, 10, 0.5, 0.25, 3.3, 1.5, 0.7, 1.1, 1.34]
    borders = [None, 0, 1, 2, 3, 4]

    def add(kind, version, kw):
        specs.append({'version': version, 'kind': kind, 'kw': kw, 'seed': seed_, 'family': 'vector'})
    reps = 1 if tier == 'quick' else 8
    for _ in range(reps):
        for v in versions:
            for b in borders:
                for s in (scales if tier == 'thorough' else r.sample(scales, 4)):
                    base = {'scale': s}
                    if b is not None:
                        base['border'] = b
                    add('svg', v, {**base, **r.choice(VEC_COLOURS), **r.choice(SVG_OPTS)})
                    add('eps', v, dict(base, **r.choice(VEC_COLOURS)))
                    add('pdf', v, dict(base, **r.choice(VEC_COLOURS), **r.choice(({}, {'compresslevel': 0}, {'compresslevel': 1}))))
                    add('tex', v, dict(base, **r.choice(({}, {'dark': 'blue'}, {'unit': 'mm'}, {'url': 'https://example.org/?a=1'}))))
    for opt in SVG_OPTS:
        for s in (1, 2.5):
            add('svg', 1, dict(opt, scale=s))
    # no quiet zone together with a background colour (the background is the page, whether or not a quiet zone surrounds the symbol)
    for v in ('M1', 1, 7):
        for kind in ('svg', 'eps', 'pdf'):
            add(kind, v, {'border': 0, 'light': 'yellow'})
            add(kind, v, {'border': 0, 'light': '#fafbfc', 'dark': 'navy', 'scale': 2.5})
            add(kind, v, {'border': 0, 'light': None})
    # EPS / PDF accept floats as R, G, B values (docstring of write_eps): each float component is an intensity 0.0 .. 1.0, also next to
    # int components in the same tuple
    for c in ((0.5, 0.0, 0.0), (0.5, 0, 0), (1.0, 1.0, 0), (0.5, 0.25, 1.0), (0.0, 0.0, 0.5), (0, 0.5, 255), (1.0, 0, 0), (0.2, 0.4, 0.6)):
        for kind in ('eps', 'pdf'):
            add(kind, 'M1', {'dark': c})
            add(kind, 1, {'light': c, 'dark': (0, 0, 0.5)})
    # hexadecimal colours written without '#' (accepted by the implementation, not documented: honoured as that colour, or refused)
    for c in ('c0ffee', 'FA8072', 'abc', 'eee', '123', '00f', 'DEAD', 'c0ffee80', 'fade', 'bad', 'BEEF00'):
        for kind in ('svg', 'eps', 'pdf'):
            if len(c) in (4, 8) and kind != 'svg':
                continue
            add(kind, 'M1', {'dark': c})
            specs[-1]['may_refuse'] = True
            add(kind, 'M1', {'light': c, 'dark': 'navy'})
            specs[-1]['may_refuse'] = True
    for s in scales:
        for kind in ('svg', 'eps', 'pdf', 'tex'):
            add(kind, 'M1', {'scale': s})
            add(kind, 1, {'scale': s, 'light': 'yellow'} if kind != 'tex' else {'scale': s})
    for v in ([7, 20, 40] if tier == 'quick' else list(range(4, 41))):
        for kind in ('svg', 'eps', 'pdf', 'tex'):
            add(kind, v, {'scale': r.choice((1, 2, 0.5))})
    # integral floats as scale, in particular products (size + 2 border) x scale that are multiples of 10 (a number formatter that strips
    # trailing zeros as a character set turns 90.0 into 9)
    for v, b in ((5, 4), (5, 0), (10, 4), ('M1', 2), (1, 2), (2, 0), (15, 4), (40, 4)):
        for sc in (2.0, 10.0, 20.0, 1.0, 0.4, 100.0):
            for kind in ('svg', 'eps', 'pdf', 'tex'):
                size = (9 + 2 * (allv_index(v) + 1)) if isinstance(v, str) else 17 + 4 * v
                if (size + 2 * b) * sc <= 1900:
                    add(kind, v, {'scale': sc, 'border': b})
    # the middle of every range: random version, scale (2-3 decimals), border
    allv = ['M1', 'M2', 'M3', 'M4'] + list(range(1, 41))
    for _ in range(80 if tier == 'quick' else 800):
        v = r.choice(allv if r.random() < 0.5 else allv[:14])
        sc = r.choice((round(r.uniform(0.05, 1), 3), round(r.uniform(1, 30), 2), r.randint(1, 40), round(r.uniform(1, 4), 1)))
        kind = r.choice(('svg', 'svg', 'eps', 'pdf', 'tex'))
        kw = {'scale': sc, 'border': r.randint(0, 12)}
        size = (9 + 2 * (allv.index(v) + 1)) if isinstance(v, str) else 17 + 4 * v
        if (size + 2 * kw['border']) * sc > 1900:        # TLC integers are 32 bit; coordinates are handled in micro-units
            kw['scale'] = sc = round(1900 / (size + 2 * kw['border']) * r.uniform(0.3, 1), 2)
        if kind != 'tex':
            kw.update(r.choice(VEC_COLOURS))
        if kind == 'svg' and r.random() < 0.5:
            kw.update(r.choice(SVG_OPTS))
        add(kind, v, kw)
    # symbols that contain a row without dark modules (the line iterator must still advance)
    for v in ('M1', 1):
        for kind in ('svg', 'eps', 'pdf', 'tex'):
            for sc in (1, 2.5):
                add(kind, ['empty', v], {'scale': sc})
                add(kind, ['empty', v], {'scale': sc, 'border': 0})
    return specs


def run_c10(rep, tier):
    specs = gen_vector(tier, common.seed())
    rep.evaluations = len(specs)
    obs = run_pool(vector_obs, specs)
    # one session in a single process: equal-comparing colour arguments (1 == 1.0 == True) and equal colours in different notations in rotation
    cols = [{'dark': (0, 0, 139, 1)}, {'dark': (0, 0, 139, 1.0)}, {'dark': (0, 0, 139, True)}, {'dark': (0, 0, 139)}, {'dark': '#00008b'}, {'dark': 'darkblue'},
            {'dark': (0, 0, 139, 1.0), 'light': (255, 255, 255, 1)}, {'light': (255, 255, 255, 1.0)}, {'dark': '#00008bff'}, {'dark': (0, 0, 139, 0)},
            {'dark': (0, 0, 139, 0.0)}, {'dark': (0, 0, 139, False), 'light': 'yellow'}]
    sess = []
    for i in range(96 if tier == 'quick' else 480):
        kind = ('svg', 'pdf', 'eps', 'svg')[i % 4]
        sess.append({'version': ('M2', 1)[i % 2], 'kind': kind, 'kw': dict(cols[(i // 4 + i) % len(cols)], scale=(1, 2.5)[i % 2]), 'seed': common.seed(), 'family': 'vector'})
    for v in (2, 'M2', 7) if tier == 'quick' else (1, 2, 3, 4, 5, 7, 'M1', 'M2', 'M3', 'M4'):
        for pattern in ('rowcopy', 'colcopy', 'dark', 'light', 'checker', 'rows'):
            for kind in ('svg', 'eps', 'pdf', 'tex'):
                sess.append({'version': ['crafted', v, pattern, 1], 'kind': kind, 'kw': {'scale': (1, 2.5)[len(sess) % 2], 'border': (0, 1, 4)[len(sess) % 3]},
                             'seed': common.seed(), 'family': 'vector'})
    # colour components 0, 1, 2, 254, 255 (1 is an intensity of 1/255, not of 1.0) as tuple and as hexadecimal value
    for clr in ((1, 1, 1), '#010101', (255, 1, 1), '#ff0101', (0, 1, 0), (1, 0, 0), (2, 2, 2), (254, 255, 0), '#fffe01', (0, 0, 1), (1, 1, 1, 255), (1, 1, 1, 1.0)):
        for kind in ('svg', 'eps', 'pdf'):
            sess.append({'version': 'M2', 'kind': kind, 'kw': {'dark': clr}, 'seed': common.seed(), 'family': 'vector'})
            sess.append({'version': 'M2', 'kind': kind, 'kw': {'dark': 'navy', 'light': clr}, 'seed': common.seed(), 'family': 'vector'})
    # every integer alpha value (0..255) as stroke opacity, and the special colours black / white with the alpha values around the ends
    for a in range(256):
        sess.append({'version': 'M1', 'kind': 'svg', 'kw': {'dark': (0, 0, 139, a), 'scale': 1}, 'seed': common.seed(), 'family': 'vector'})
    for a in (0, 1, 2, 16, 127, 128, 254, 255, 0.0, 0.5, 1.0):
        for rgb in ((0, 0, 0), (255, 255, 255), (255, 0, 0)):
            sess.append({'version': 'M1', 'kind': 'svg', 'kw': {'dark': rgb + (a,), 'light': (0, 128, 0)}, 'seed': common.seed(), 'family': 'vector'})
            sess.append({'version': 'M1', 'kind': 'svg', 'kw': {'light': rgb + (a,)}, 'seed': common.seed(), 'family': 'vector'})
    rep.evaluations += len(sess)
    sobs = run_session(vector_obs, sess)
    # a colour the format cannot express (alpha in EPS / PDF) may be refused with a ValueError - in every position of the session alike
    for o in sobs:
        if o['outcome']['status'] != 'ok' and 'ValueError' in o['outcome'].get('mro', []) and o['_spec']['kind'] in ('eps', 'pdf'):
            def translucent(c):
                return isinstance(c, tuple) and len(c) == 4 and not (c[3] == 1.0 if isinstance(c[3], float) else c[3] == 255)
            if translucent(o['_spec']['kw'].get('dark')) or translucent(o['_spec']['kw'].get('light')):
                continue
        obs.append(o)
    judge_docs(rep, obs)
    remarks = {}
    for o in obs:
        for rm in (o.get('doc') or {}).get('remarks', []) if isinstance(o.get('doc'), dict) else []:
            remarks[rm] = remarks.get(rm, 0) + 1
    rep.notes['remarks_not_violations'] = remarks
    rep.trusted += ['expat (XML well-formedness), zlib, tokenisers for path data / PostScript / PDF content streams / PGF macros in harness/project.py']
    rep.rule = ('sizes 11..29 (+ 45, 97, 177) x border x scale {1, 2, 10, 0.5, 0.25, 3.3, 1.5, 0.7, 1.1, 1.34} x colours for SVG (20 option '
                'sets: unit, omitsize, svgversion, draw_transparent, xmldecl, svgns, nl, title/desc escaping, alpha colours, encoding), EPS, '
                'PDF, PGF; TLC replays the drawing program on the pen machine and compares the covered unit squares with the dark modules; '
                'distinct non-trivial = distinct (format, size, border, scale, options)')


# =============================================================================================== C11
TYPE_OPTS = ('finder_dark', 'finder_light', 'data_dark', 'data_light', 'version_dark', 'version_light', 'format_dark', 'format_light',
             'alignment_dark', 'alignment_light', 'timing_dark', 'timing_light', 'separator', 'dark_module', 'quiet_zone')
PALETTE = ['red', 'green', 'blue', 'yellow', 'navy', 'darkred', 'orange', 'purple', 'gray', 'teal', '#123456', '#abc', (9, 8, 7), 'brown', 'gold', 'pink']


def typed_obs(spec):
    qr = symbol_for(spec['version'], spec['seed'])
    kind, kw = spec['kind'], {k: tuple(v) if isinstance(v, list) else v for k, v in spec['kw'].items()}     # replay files hold tuples as lists
    o = {'_spec': spec, 'family': spec['family'], 'prop': 'C11', 'kind': kind, 'matrix': [list(r) for r in qr.matrix],
         'border': effective_border(qr, kw.get('border')), 'scale': int(kw.get('scale', 1)), 'outcome': {'status': 'ok'}}
    try:
        if spec['family'] == 'iter':
            o['verbose'] = bool(kw.get('verbose', False))
            o['rows'] = [list(r) for r in qr.matrix_iter(**kw)]
        else:
            defaults = {'png': ('#000', '#fff'), 'ppm': ('#000', '#fff'), 'svg': ('#000', None)}[kind]
            o['dark'] = project.colour_arg(kw.get('dark', defaults[0]))
            o['light'] = project.colour_arg(kw.get('light', defaults[1]))
            o['colours'] = {k: (project.colour_arg(kw[k]) if k in kw else {'kind': 'unset'}) for k in TYPE_OPTS}
            o['scale_micro'] = project.um(kw.get('scale', 1))
            data = save_to_memory(qr, kind, kw)
            o['doc'] = {'png': project.png, 'ppm': project.ppm, 'svg': project.svg}[kind](data)
    except Exception as e:  # noqa
        o['outcome'] = symobs.outcome_of_exception(e)
    o['_cost'] = ((len(o['matrix']) + 2 * o['border']) * o['scale']) ** 2
    return o


def gen_typed(tier, seed_):
    r = gen.rng(seed_, 'C11')
    specs = []

    def add(family, kind, version, kw):
        specs.append({'version': version, 'kind': kind, 'kw': kw, 'seed': seed_, 'family': family})
    allv = ['M1', 'M2', 'M3', 'M4'] + list(range(1, 41))
    # module iteration: every module of all 44 sizes, plain and verbose, default border, 0 and 1; scale 2 / 3 on small sizes
    for v in allv:
        for b in ((None, 0, 1) if tier == 'thorough' or (isinstance(v, str) or v <= 10) else (None, 0)):
            for verbose in (False, True):
                kw = {'verbose': verbose}
                if b is not None:
                    kw['border'] = b
                add('iter', 'iter', v, kw)
    for v in ('M1', 'M3', 1, 2, 7):
        for s in (2, 3):
            for verbose in (False, True):
                add('iter', 'iter', v, {'verbose': verbose, 'scale': s, 'border': r.choice((0, 1, 3))})
        add('iter', 'iter', v, {'verbose': True, 'scale': 2.9})
    # per-type colours: each single option, pairs, all 15, on sizes 11..45 (incl. a version with version information)
    versions = ['M1', 'M2', 'M3', 'M4', 1, 2, 3, 7] if tier == 'quick' else allv
    for kind in ('png', 'svg', 'ppm'):
        for opt in TYPE_OPTS:
            v = r.choice(versions)
            add('typed', kind, v, {opt: r.choice(PALETTE[:10]), 'border': r.choice((0, 1, 2, 4))})
        for _ in range(12 if tier == 'quick' else 150):
            v = r.choice(versions)
            k = r.randint(2, 5)
            kw = {opt: r.choice(PALETTE) for opt in r.sample(TYPE_OPTS, k)}
            kw['border'] = r.choice((0, 1, 2, 3, 4))
            if r.random() < 0.5:
                kw['dark'] = r.choice(('darkblue', '#222', (1, 2, 3)))
            if r.random() < 0.3 and kind != 'ppm':
                kw['light'] = r.choice((None, '#eee'))
            if r.random() < 0.3:
                kw['scale'] = r.choice((2, 3)) if kind != 'svg' else r.choice((2, 1.5))
            add('typed', kind, v, kw)
        for v in (['M2', 2, 7] if tier == 'quick' else versions):
            cols = r.sample(PALETTE, 13)
            kw = {opt: cols[i % 13] for i, opt in enumerate(TYPE_OPTS)}
            add('typed', kind, v, kw)
            # options that cross dark and light with only two distinct colours in the image
            add('typed', kind, v, {'finder_dark': 'white', 'finder_light': 'black'})
            add('typed', kind, v, {'separator': 'black', 'border': 2})
            add('typed', kind, v, {'quiet_zone': 'black', 'timing_light': 'black', 'timing_dark': 'white'})
            # the same colour given in different notations for different types
            add('typed', kind, v, {'dark': '#000', 'finder_dark': 'black', 'timing_dark': 'darkred', 'data_dark': (0, 0, 0), 'border': 1})
            # no quiet zone (border 0) together with a light colour and / or a quiet-zone colour: the page is the light colour, the
            # quiet-zone colour shows nowhere
            for extra in ({'light': 'yellow'}, {'light': 'yellow', 'quiet_zone': 'red'}, {'quiet_zone': 'red'}, {'light': '#fafbfc', 'quiet_zone': '#ffee10', 'scale': 3},
                          {'light': 'yellow', 'quiet_zone': 'yellow'}) + (({'light': None, 'quiet_zone': 'red'}, {'light': 'yellow', 'quiet_zone': None}) if kind != 'ppm' else ()):
                if kind == 'svg' and extra.get('quiet_zone', extra.get('light')) == extra.get('light'):
                    continue        # a two-colour SVG is the plain document with a background rectangle: C10's clauses (gen_vector)
                add('typed', kind, v, dict(extra, border=0))
                add('typed', kind, v, dict(extra, border=1))
            # one colour in its notations, per module type: #RGBA (translucent / opaque), #RRGGBBAA, tuple with integer and float alpha
            if kind != 'ppm':
                add('typed', kind, v, {'finder_dark': '#f008', 'data_dark': '#ff000088', 'timing_dark': (255, 0, 0, 136), 'format_dark': '#f00f', 'border': 1})
                add('typed', kind, v, {'finder_dark': '#00f8', 'light': None})
            add('typed', kind, v, {'finder_dark': '#00ff', 'data_dark': '#0000ffff', 'timing_dark': '#00F', 'alignment_dark': (0, 0, 255, 255), 'version_dark': (0, 0, 255, 1.0)})
            if kind == 'png':
                # tuples that compare equal but are different colours: alpha 1 (integer, 1/255) and alpha 1.0 (float, opaque), 255 and 1.0
                add('typed', kind, v, {'dark': (0, 0, 128, 1.0), 'finder_dark': (0, 0, 128, 1)})
                add('typed', kind, v, {'dark': (0, 0, 128, 1), 'finder_dark': (0, 0, 128, 1.0), 'light': None})
                add('typed', kind, v, {'data_dark': (128, 0, 0, 255), 'finder_dark': (128, 0, 0, 1.0), 'timing_dark': (128, 0, 0, 1), 'format_dark': (128, 0, 0, 0)})
        # every single option on symbols that do / do not contain modules of that type (M1: no alignment, no version, no dark module;
        # version 1: no alignment pattern; border 0: no quiet zone), with and without scaling
        for opt in TYPE_OPTS:
            for v in (('M1', 1, 7) if tier == 'quick' else ('M1', 'M4', 1, 2, 6, 7)):
                for sc in ((1, 3, 2.5) if opt in ('finder_dark', 'data_light', 'quiet_zone') else (1, 3)) if kind != 'svg' else (1, 2.5):
                    for b in (0, 2):
                        add('typed', kind, v, {opt: 'red', 'scale': sc, 'border': b})
        # two-colour pictures in which ONE type crosses over (a dark type in the light colour, a light type in the dark colour)
        for opt in TYPE_OPTS:
            crossing = '#fff' if (opt.endswith('_dark') or opt == 'dark_module') else '#000'
            for v in ((1, 7) if tier == 'quick' else (1, 2, 7, 'M2', 'M4')):
                add('typed', kind, v, {opt: crossing})
                if kind != 'ppm' and crossing == '#fff':
                    add('typed', kind, v, {opt: None, 'light': None})
        # the middle of the version range (per-type colours of versions 8 .. 40: many alignment patterns, version information)
        for _ in range(6 if tier == 'quick' else 40):
            v = r.randint(8, 40)
            kw = {opt: r.choice(PALETTE) for opt in r.sample(TYPE_OPTS, r.randint(3, 8))}
            kw['border'] = r.randint(0, 6)
            if kind == 'svg' and r.random() < 0.5:
                kw['scale'] = round(r.uniform(0.5, 4), 2)
            add('typed', kind, v, kw)
        # crafted data regions (equal adjacent rows / columns, all dark, all light, stripes): function patterns untouched
        cols = r.sample(PALETTE, 13)
        allkw = {opt: cols[i % 13] for i, opt in enumerate(TYPE_OPTS)}
        for v in (2, 'M2', 7) if tier == 'quick' else (1, 2, 3, 4, 5, 7, 'M1', 'M2', 'M3', 'M4'):
            for pattern in ('rowcopy', 'colcopy', 'dark', 'light', 'checker', 'rows'):
                for mask in (range(8) if (pattern == 'rowcopy' and v == 2) else (1,)):
                    if isinstance(v, str) and mask > 3:
                        continue
                    add('typed', kind, ['crafted', v, pattern, mask], dict(allkw, border=r.choice((0, 1, 4))))
                    if pattern in ('rowcopy', 'colcopy'):
                        add('typed', kind, ['crafted', v, pattern, mask], {'alignment_dark': '#cc0000', 'finder_dark': 'navy', 'border': 0})
        # visible colours that an implementation might pick as its internal stand-in for "transparent" (the first CSS names, black,
        # white, #010101) next to a transparent type, given as name, hex and tuple
        if kind != 'ppm':
            for clr in ('aliceblue', '#f0f8ff', (240, 248, 255), 'antiquewhite', '#faebd7', 'aqua', '#000', '#fff', '#010101', (255, 255, 254)):
                add('typed', kind, 1, {'light': clr, 'quiet_zone': None, 'border': 2})
                add('typed', kind, 'M2', {'dark': clr, 'light': None})
                add('typed', kind, 2, {'data_dark': clr, 'finder_light': None, 'alignment_dark': 'red'})
        # transparency for single types (PNG / SVG)
        if kind != 'ppm':
            add('typed', kind, 1, {'data_light': None, 'finder_dark': 'red'})
            add('typed', kind, 2, {'quiet_zone': None, 'alignment_dark': 'blue', 'light': 'white'})
    return specs


def run_c11(rep, tier):
    specs = gen_typed(tier, common.seed())
    rep.evaluations = len(specs)
    obs = run_pool(typed_obs, specs)
    judge_docs(rep, obs)
    # validation of border / scale by matrix_iter
    segno = common.use_repo()
    qr = segno.make('C11', micro=False)
    nref = 0
    for kw in ({'border': -1}, {'border': 1.5}, {'scale': 0}, {'scale': -2}, {'scale': 0.4}, {'border': -1, 'verbose': True},
               {'scale': 0, 'verbose': True}, {'border': 2.5, 'verbose': True}):
        nref += 1
        try:
            list(qr.matrix_iter(**kw))
            rep.violation({'kind': 'render', 'module': 'props_render', 'spec': {'version': 1, 'kind': 'iter', 'kw': kw, 'seed': 0, 'family': 'iter'},
                           'failing_clauses': ['should_have_been_refused']}, f'matrix_iter({kw}) was accepted')
        except ValueError:
            rep.keys.add(('refused', json.dumps(kw, sort_keys=True)))
        except Exception as e:  # noqa
            rep.violation({'kind': 'render', 'module': 'props_render', 'spec': {'version': 1, 'kind': 'iter', 'kw': kw, 'seed': 0, 'family': 'iter'},
                           'failing_clauses': ['refusal_is_not_a_ValueError']}, f'matrix_iter({kw}) raised {type(e).__name__}')
    rep.evaluations += nref
    rep.exhaustive = False
    rep.notes['exhaustive_subspaces'] = ['every module position of all 44 symbol sizes (plain and verbose iteration)']
    rep.rule = ('matrix_iter plain / verbose on all 44 sizes (every module position; borders default, 0, 1; scales 2, 3 on small sizes) compared '
                'by TLC with Cell / ISO module class (ISOTables!ClassG); colourful PNG, SVG, PPM with each single type option, random subsets, '
                'all 15 options, same colour in different notations, transparent types: TLC decodes the document and compares the colour '
                'of every module with the option of its ISO type; distinct non-trivial = distinct (kind, size, border, scale, options)')


REGISTRY = {'C09': run_c09, 'C10': run_c10, 'C11': run_c11}
