#!/bin/sh
# runs the thorough tier of the given checks one after the other (default: all); prints one summary line per check
cd "$(dirname "$0")/.."
for p in ${@:-C02 C03 C06 C13 C08 C09 C10 C11 C12 C14 C16 C15 C05 C01 C04 C07}; do
  bin/check $p --tier thorough > work_thorough_$p.log 2>&1
  echo "$p exit=$? $(tail -1 work_thorough_$p.log | cut -c1-220)"
done
