------------------------------ MODULE SymCheck ------------------------------
(***************************************************************************)
(* Clauses of the properties C01, C02, C03, C06, C13 (and the symbol-level *)
(* parts of C04, C05, C07, C08) evaluated on ONE observed symbol: the      *)
(* matrix and metadata returned by the implementation plus the abstract    *)
(* description of the call that produced it.  Every verdict is total: the  *)
(* set of names of the clauses that fail (empty = the observation is a     *)
(* state the specification allows).                                        *)
(***************************************************************************)
EXTENDS Codec

Has(o, f) == f \in DOMAIN o
InSeq(x, s) == \E i \in 1..Len(s) : s[i] = x

ValidShape(M) == /\ Len(M) >= 1 /\ ValidSize(Len(M))
                 /\ \A r \in 1..Len(M) : Len(M[r]) = Len(M)
Values01(M) == \A r \in 1..Len(M) : \A c \in 1..Len(M[r]) : M[r][c] \in {0, 1}

(* ---------------- expected payload (C01): the text -> bytes policy ---------------- *)
\* a part: [kind |-> "str" | "bytes" | "int", hanzi, req_enc (python codec name or "none"),
\*          raw (bytes / decimal digits), req (text in requested encoding), gb2312, latin1_ok, latin1, sjis_ok, sjis, utf8]
PartBytes(p) == IF p.kind \in {"bytes", "int"} THEN p.raw
                ELSE IF p.hanzi THEN p.gb2312
                ELSE IF p.req_enc # "none" THEN p.req
                ELSE IF p.latin1_ok THEN p.latin1 ELSE IF p.sjis_ok THEN p.sjis ELSE p.utf8
PartEnc(p) == IF p.hanzi THEN "gb2312"
              ELSE IF p.req_enc # "none" THEN p.req_enc
              ELSE IF p.kind \in {"bytes", "int"} THEN "iso8859-1"
              ELSE IF p.latin1_ok THEN "iso8859-1" ELSE IF p.sjis_ok THEN "shift_jis" ELSE "utf-8"
ExpectedPayload(parts) == FoldLeft(LAMBDA a, p : a \o PartBytes(p), <<>>, parts)

\* index (in segs) of the data segment that contains payload byte offset off (0-based), 0 if none
SegOfOffset(segs, off) ==
  LET res == FoldLeft(LAMBDA st, i : IF segs[i].kind # "data" THEN st
                                     ELSE LET l == Len(segs[i].bytes) IN
                                          IF st[2] = 0 /\ off >= st[1] /\ off < st[1] + l THEN <<st[1] + l, i>> ELSE <<st[1] + l, st[2]>>,
                      <<0, 0>>, Iota(Len(segs)))
  IN res[2]
EciRule(o, v, segs) ==
  LET parts == o.exp.parts
      offs == FoldLeft(LAMBDA a, p : Append(a, a[Len(a)] + Len(PartBytes(p))), <<0>>, parts)
  IN IF ~o.exp.eci \/ IsMicro(v) THEN \A i \in 1..Len(segs) : segs[i].kind # "eci"
     ELSE /\ \A k \in 1..Len(parts) :
               LET j == SegOfOffset(segs, offs[k]) IN
               (Len(PartBytes(parts[k])) > 0 /\ j > 0 /\ segs[j].mode = "byte" /\ PartEnc(parts[k]) # "iso8859-1")
                  => (j > 1 /\ segs[j-1].kind = "eci" /\ segs[j-1].num \in EciNumbers(PartEnc(parts[k])))
          /\ \A i \in 1..Len(segs) : segs[i].kind = "eci" => (i < Len(segs) /\ segs[i+1].kind = "data" /\ segs[i+1].mode = "byte")

C01Fails(o, dec) ==
  LET d == dec.d IN
  {c \in {"format_readable", "rs_clean", "stream_parses", "payload", "eci_rule"} :
     CASE c = "format_readable" -> ~(dec.fmt.valid /\ dec.fmt2_ok /\ dec.size_ok)
       [] c = "rs_clean" -> ~d.rs_ok
       [] c = "stream_parses" -> d.parse # "end"
       [] c = "payload" -> d.payload # ExpectedPayload(o.exp.parts)
       [] c = "eci_rule" -> ~EciRule(o, dec.v, d.segs)}

(* ---------------- C02: geometry, function patterns, format / version information, metadata ---------------- *)
PatternFails(M, v) == \* classes of function patterns with at least one wrong module
  LET g == Geo(v) n == g.n IN
  {cls \in {"finder", "separator", "timing", "alignment", "dark"} :
      \E r \in 0..n-1 : \E c \in 0..n-1 : ClassG(g, r, c) = cls /\ At(M, r, c) # PatternValueG(g, cls, r, c)}
Designator(v, e) == IF e = "-" THEN VersionName(v) ELSE VersionName(v) \o "-" \o e
ModeReportOK(res, segs) ==
  LET ds == DataSegs(segs) IN
  IF Len(ds) = 1 THEN res.mode = ds[1].mode
  ELSE res.mode = "none" \/ (Len(ds) > 1 /\ \A i \in 1..Len(ds) : ds[i].mode = res.mode)
C02Fails(o, dec) ==
  LET M == o.res.matrix v == dec.v n == Len(M) res == o.res
      pf == PatternFails(M, v)
      fw == FormatWordFor(v, dec.fmt.level, dec.fmt.mask)
  IN pf \cup
  {c \in {"fmt_valid", "fmt_copy2", "fmt_matches_data", "version_info",
          "meta_version", "meta_error", "meta_mask", "meta_micro", "meta_designator", "meta_mode", "meta_size", "meta_border", "meta_size_scaled"} :
     CASE c = "fmt_valid" -> ~(dec.fmt.valid /\ dec.size_ok /\ HasLevel(v, dec.fmt.level) /\ dec.f1 = fw)
       [] c = "fmt_copy2" -> ~dec.fmt2_ok
       [] c = "fmt_matches_data" -> ~dec.d.rs_ok     \* the level and mask announced are the ones actually used
       [] c = "version_info" -> ~dec.ver_ok
       [] c = "meta_version" -> res.version # v
       [] c = "meta_error" -> res.error # dec.fmt.level
       [] c = "meta_mask" -> res.mask # dec.fmt.mask
       [] c = "meta_micro" -> res.is_micro # IsMicro(v)
       [] c = "meta_designator" -> res.designator # Designator(v, dec.fmt.level)
       [] c = "meta_mode" -> ~ModeReportOK(res, dec.d.segs)
       [] c = "meta_size" -> LET b == IF IsMicro(v) THEN 2 ELSE 4 IN res.symbol_size # <<n + 2*b, n + 2*b>>
       [] c = "meta_border" -> res.default_border # (IF IsMicro(v) THEN 2 ELSE 4)
       \* symbol_size(scale, border) = (size + 2 * border) * scale in both directions; res.sizes: <<scale, border (-1 = default), w, h>>
       [] c = "meta_size_scaled" -> \E i \in 1..Len(res.sizes) :
                                      LET z == res.sizes[i] b == IF z[2] = -1 THEN (IF IsMicro(v) THEN 2 ELSE 4) ELSE z[2] IN
                                      z[3] # (n + 2*b) * z[1] \/ z[4] # (n + 2*b) * z[1]}

(* ---------------- C03: block layout, RS validity, correctability ---------------- *)
ApplyFaults(cw, pat) == FoldLeft(LAMBDA a, f : [a EXCEPT ![f[1]] = @ ^^ f[2]], cw, pat)    \* f = <<index, xor value>>
\* a standard decoder restores every block of the corrupted codeword sequence
Restores(cw, lay, pat) ==
  LET good == Deinterleave(cw, lay)
      bad == Deinterleave(ApplyFaults(cw, pat), lay)
  IN \A b \in 1..Len(lay) : LET r == RSCorrect(bad[b][1] \o bad[b][2], lay[b][2]) IN r.ok /\ r.cw = good[b][1] \o good[b][2]
C03Fails(o, dec) ==
  LET d == dec.d v == dec.v lay == d.lay cw == d.cw IN
  {c \in {"layout", "rs_valid", "correctable", "single_errors"} :
     CASE c = "layout" -> ~(d.nraw = DataModules(v) /\ Len(cw) = TotalCodewords(v)
                            /\ FoldLeft(LAMBDA a, b : a + b[1] + b[2], 0, lay) = Len(cw))
       [] c = "rs_valid" -> ~d.rs_ok
       [] c = "correctable" -> ~(\A k \in 1..Len(o.exp.faults) : Restores(cw, lay, o.exp.faults[k]))
       [] c = "single_errors" -> o.exp.exh_single /\ ~(\A i \in 1..Len(cw) : \A x \in {1, 128, 255} : Restores(cw, lay, << <<i, x>> >>))}

(* ---------------- C06: data mask ---------------- *)
C06Eval(o, dec) ==
  LET M == o.res.matrix v == dec.v used == dec.fmt.mask IN
  IF o.exp.mask_req >= 0
  THEN [fails |-> {c \in {"requested"} : ~(used = o.exp.mask_req /\ dec.d.rs_ok)}, devs |-> {}, scores |-> <<>>]
  ELSE LET iso == MaskScores(M, v, used, N3Iso)
           best == BestOf(iso, IsMicro(v))
       IN IF best = used /\ dec.d.rs_ok THEN [fails |-> {}, devs |-> {}, scores |-> iso]
          ELSE LET alt == IF IsMicro(v) THEN iso ELSE MaskScores(M, v, used, N3SkipOverlap) IN
               [fails |-> {"auto_argmin"},
                devs |-> {x \in {"Dev_N3SkipOverlap"} : ~IsMicro(v) /\ dec.d.rs_ok /\ BestOf(alt, FALSE) = used},
                scores |-> iso]

(* ---------------- C13: terminator and padding ---------------- *)
C13Eval(o, dec) ==
  LET d == dec.d v == dec.v cap == Len(d.dbits) p == d.endp
      tail == IF d.parse = "end" THEN SubSeq(d.dbits, p + 1, cap) ELSE <<>>
      want == IsoTail(v, cap, p)
      t == Min2(cap - p, TermLen(v))
      q == p + t
      nb == IF q % 8 = 0 \/ q = cap THEN q ELSE Min2(8 * ((q \div 8) + 1), cap)
      Eq(a, b) == Len(tail) = cap - p /\ SubSeq(tail, a, b) = SubSeq(want, a, b)
      fails == {c \in {"parsed", "capacity", "terminator", "align", "pads", "remainder_zero"} :
                 CASE c = "parsed" -> d.parse # "end"
                   [] c = "capacity" -> cap # Cap(v, dec.fmt.level)
                   [] c = "terminator" -> d.parse = "end" /\ ~Eq(1, t)
                   [] c = "align" -> d.parse = "end" /\ ~Eq(t + 1, nb - p)
                   [] c = "pads" -> d.parse = "end" /\ ~Eq(nb - p + 1, cap - p)
                   [] c = "remainder_zero" -> ~d.rem_zero}
  IN [fails |-> fails,
      devs |-> {x \in {"Dev_PadBitsWhenAligned"} : fails # {} /\ fails \subseteq {"align", "pads"} /\ d.parse = "end"
                                                   /\ tail = TailPadBitsWhenAligned(v, cap, p)},
      facts |-> [endp |-> p, cap |-> cap, q8 |-> q % 8, dist |-> cap - p]]

(* ---------------- C04 / C05 on one symbol (any content, also multi-part) ---------------- *)
\* o.exp.req: [version (99 = none), error ("-" = none), micro ("none" | "yes" | "no"), eci, boost]
ReqLevelFor(v, req) == IF v = -3 THEN "-" ELSE IF req.error = "-" THEN "L" ELSE req.error
ReqAdmissible(v, req, segs) ==
  /\ (IsMicro(v) => req.micro # "no" /\ ~req.eci /\ \A i \in 1..Len(segs) : segs[i].kind = "data" /\ ModeOK(v, segs[i].mode))
  /\ (~IsMicro(v) => req.micro # "yes")
  /\ (v = -3 => req.error = "-")
  /\ HasLevel(v, ReqLevelFor(v, req))
C04Fails(o, dec) ==
  LET d == dec.d v == dec.v req == o.exp.req IN
  {c \in {"never_truncated", "smallest_for_segmentation", "requested_version"} :
     CASE c = "never_truncated" -> ~(d.parse = "end" /\ Len(d.payload) = Len(ExpectedPayload(o.exp.parts)))
       [] c = "smallest_for_segmentation" ->
            req.version = 99 /\ d.parse = "end" /\
            \E w \in -3..40 : w < v /\ ReqAdmissible(w, req, d.segs) /\ CapT(w, ReqLevelFor(w, req)) >= StreamLen(w, d.segs)
       [] c = "requested_version" -> req.version # 99 /\ v # req.version}
C05Fails(o, dec) ==
  LET v == dec.v e == dec.fmt.level req == o.exp.req need == StreamLen(v, dec.d.segs) IN
  {c \in {"level_not_below_request", "no_H_in_micro", "m1_has_no_level", "noboost_exact", "boost_max"} :
     CASE c = "level_not_below_request" -> req.error # "-" /\ (e = "-" \/ LevelIdx(e) < LevelIdx(req.error))
       [] c = "no_H_in_micro" -> IsMicro(v) /\ e = "H"
       [] c = "m1_has_no_level" -> (v = -3) # (e = "-")
       [] c = "noboost_exact" -> ~req.boost /\ e # ReqLevelFor(v, req)
       [] c = "boost_max" -> req.boost /\ Len(o.exp.parts) = 1 /\ dec.d.parse = "end" /\ e # "-" /\
                             ~(\A x \in {"L", "M", "Q", "H"} : (HasLevel(v, x) /\ LevelIdx(x) > LevelIdx(e)) => CapT(v, x) < need)}

(* ---------------- the verdict of one symbol observation ---------------- *)
\* o.props: sequence of property ids whose clauses are to be evaluated
SymVerdict(o) ==
  LET M == o.res.matrix IN
  \* a matrix that is not a square of a valid size, or holds values other than 0 / 1, fails every requested property
  IF ~ValidShape(M) THEN [tid |-> o.tid, fails |-> {<<o.props[i], "square_size">> : i \in 1..Len(o.props)}, devs |-> {}, facts |-> [shape |-> "bad"]]
  ELSE IF ~Values01(M) THEN [tid |-> o.tid, fails |-> {<<o.props[i], "values01">> : i \in 1..Len(o.props)}, devs |-> {}, facts |-> [shape |-> "bad01"]]
  ELSE
  LET dec == Decode(M)
      want(p) == InSeq(p, o.props)
      c06 == IF want("C06") THEN C06Eval(o, dec) ELSE [fails |-> {}, devs |-> {}, scores |-> <<>>]
      c13 == IF want("C13") THEN C13Eval(o, dec) ELSE [fails |-> {}, devs |-> {}, facts |-> [endp |-> dec.d.endp, cap |-> Len(dec.d.dbits), q8 |-> 0, dist |-> 0]]
      tag(p, S) == {<<p, c>> : c \in S}
  IN [tid |-> o.tid,
      fails |-> (IF want("C01") THEN tag("C01", C01Fails(o, dec)) ELSE {})
                \cup (IF want("C02") THEN tag("C02", C02Fails(o, dec)) ELSE {})
                \cup (IF want("C03") THEN tag("C03", C03Fails(o, dec)) ELSE {})
                \cup (IF want("C04") THEN tag("C04", C04Fails(o, dec)) ELSE {})
                \cup (IF want("C05") THEN tag("C05", C05Fails(o, dec)) ELSE {})
                \cup tag("C06", c06.fails) \cup tag("C13", c13.fails),
      devs |-> c06.devs \cup c13.devs,
      facts |-> [v |-> dec.v, level |-> dec.fmt.level, mask |-> dec.fmt.mask, parse |-> dec.d.parse,
                 modes |-> [i \in 1..Len(dec.d.segs) |-> IF dec.d.segs[i].kind = "data" THEN dec.d.segs[i].mode ELSE dec.d.segs[i].kind],
                 counts |-> [i \in 1..Len(dec.d.segs) |-> IF dec.d.segs[i].kind = "data" THEN dec.d.segs[i].count ELSE -1],
                 endp |-> c13.facts.endp, cap |-> c13.facts.cap, q8 |-> c13.facts.q8, dist |-> c13.facts.dist,
                 nblocks |-> Len(dec.d.lay), scores |-> c06.scores]]
=============================================================================
