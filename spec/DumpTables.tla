----------------------------- MODULE DumpTables -----------------------------
(* spec -> harness: the ISO tables of the specification, exported once so that the input generators can aim at
   capacity boundaries without consulting segno's own tables. *)
EXTENDS ISOTables, Json
VARIABLE x
Init == x = 0
Next == /\ x = 0 /\ x' = 1
        /\ PrintT(<<"VECTOR", ToJson([
              versions |-> AllVersions,
              cap |-> [k \in 1..44 |-> LET v == AllVersions[k] IN [e \in {"L","M","Q","H","-"} |-> CapT(v, e)]],
              ccbits |-> [k \in 1..44 |-> LET v == AllVersions[k] IN [m \in {"numeric","alphanumeric","byte","kanji","hanzi"} |-> IF ModeOK(v, m) THEN CCBits(v, m) ELSE -1]],
              modebits |-> [k \in 1..44 |-> ModeBits(AllVersions[k])],
              termlen |-> [k \in 1..44 |-> TermLen(AllVersions[k])],
              total |-> [k \in 1..44 |-> TotalCodewords(AllVersions[k])],
              layout |-> [k \in 1..44 |-> LET v == AllVersions[k] IN [e \in {"L","M","Q","H","-"} |-> IF HasLevel(v, e) THEN Layout(v, e) ELSE <<>>]],
              \* which modules are data modules (1) for the small versions and 7 (first with version information): used to craft symbols whose
              \* data region holds adversarial patterns while every function pattern stays as the implementation drew it
              datamap |-> [k \in 1..10 |-> LET v == <<-3, -2, -1, 0, 1, 2, 3, 4, 5, 7>>[k] g == Geo(v) IN
                             [r \in 1..g.n |-> [c \in 1..g.n |-> IF ClassG(g, r-1, c-1) = "data" THEN 1 ELSE 0]]],
              selfcheck |-> GFSelfCheck(0) /\ ISOSelfCheck(0) ])>>)
=============================================================================
