"""C12: all output routes give the same document (Routes.tla vectors -> executions -> Trace_Routes)."""
import base64
import contextlib
import gzip
import hashlib
import io
import json
import os
import re
import shutil
import subprocess
import sys
import tempfile
import urllib.parse
import multiprocessing as mp
from . import common, symobs, engine, gen

CONTENT = 'C12 route test'
BINARY = {'png', 'pbm', 'pam', 'ppm', 'pdf', 'svg'}
VALUES = {'scale': 3, 'border': 1, 'dark': 'darkblue', 'light': 'yellow', 'dpi': 300, 'compresslevel': 1, 'xmldecl': False, 'svgns': False,
          'title': 'T <&> "q"', 'desc': 'D', 'svgid': 'qr1', 'svgclass': 'cls', 'lineclass': 'ln', 'omitsize': True, 'unit': 'mm', 'svgversion': 1.1,
          'nl': False, 'draw_transparent': True, 'encoding': 'iso-8859-1', 'plain': True, 'name': 'qrx', 'url': 'https://example.org/',
          'finder_dark': 'red', 'finder_light': 'gray', 'data_dark': 'navy', 'data_light': 'pink', 'version_dark': 'teal', 'version_light': 'gold',
          'format_dark': 'purple', 'format_light': 'orange', 'alignment_dark': 'green', 'alignment_light': 'silver', 'timing_dark': 'maroon',
          'timing_light': 'olive', 'separator': 'aqua', 'dark_module': 'brown', 'quiet_zone': 'lime'}
FLAGS = {'scale': ['--scale', '3'], 'border': ['--border', '1'], 'dark': ['--dark', 'darkblue'], 'light': ['--light', 'yellow'], 'dpi': ['--dpi', '300'],
         'xmldecl': ['--no-xmldecl'], 'svgns': ['--no-namespace'], 'nl': ['--no-newline'], 'title': ['--title', 'T <&> "q"'], 'desc': ['--desc', 'D'],
         'svgid': ['--svgid', 'qr1'], 'svgclass': ['--svgclass', 'cls'], 'lineclass': ['--lineclass', 'ln'], 'omitsize': ['--no-size'],
         'unit': ['--unit', 'mm'], 'svgversion': ['--svgversion', '1.1'], 'draw_transparent': ['--draw-transparent'],
         'encoding': ['--svgencoding', 'iso-8859-1']}
for _k in ('finder_dark', 'finder_light', 'data_dark', 'data_light', 'version_dark', 'version_light', 'format_dark', 'format_light',
           'timing_dark', 'timing_light', 'separator', 'dark_module', 'quiet_zone'):
    FLAGS[_k] = ['--' + _k.replace('_', '-'), VALUES[_k]]
FLAGS['alignment_dark'] = ['--align-dark', VALUES['alignment_dark']]
FLAGS['alignment_light'] = ['--align-light', VALUES['alignment_light']]
FORCED = {'xmldecl_false': ('xmldecl', False), 'svgns_false': ('svgns', False), 'nl_false': ('nl', False)}

_TS = [(re.compile(rb'%%CreationDate: [^\n]*'), b'%%CreationDate: X'), (re.compile(rb'/CreationDate\(D:[^)]*\)'), b'/CreationDate(D:X)'),
       (re.compile(rb'% Date:     [^\n]*'), b'% Date:     X')]


def normalise(kind, data):
    if kind in ('eps', 'pdf', 'tex'):
        for rx, rep in _TS:
            data = rx.sub(rep, data)
    return data


def digest(data):
    return {'status': 'ok', 'sha': hashlib.sha256(data).hexdigest(), 'len': len(data)}


def failure(e):
    return {'status': 'raise:' + ('ValueError' if isinstance(e, ValueError) else type(e).__name__), 'sha': '', 'len': 0}


def as_bytes(kind, value, encoding='utf-8'):
    return value if isinstance(value, bytes) else value.encode(encoding)


def save_stream(qr, kind, kw, kind_arg=None):
    buf = io.BytesIO() if kind in BINARY else io.StringIO()
    qr.save(buf, kind=kind_arg or kind, **kw)
    return as_bytes(kind, buf.getvalue())


_DECL = re.compile(r'^<\?xml((?:\s+[A-Za-z]+\s*=\s*(?:"[^"]*"|\'[^\']*\'))*)\s*\?>\s*')
_PSEUDO = re.compile(r'([A-Za-z]+)\s*=\s*(?:"([^"]*)"|\'([^\']*)\')')


def canonical_xml(data, enc='utf-8'):
    """canonical form of an XML document given as bytes in `enc`: the pseudo-attributes of the XML declaration (quote style
    normalised; the data URI route writes single quotes) followed by the C14N form of the document"""
    import xml.etree.ElementTree as ET
    text = data.decode(enc, 'replace')
    m = _DECL.match(text)
    decl = 'no-declaration'
    if m:
        decl = 'declaration ' + ' '.join('%s=%s' % (a, b or c) for a, b, c in _PSEUDO.findall(m.group(1)))
        text = text[m.end():]
    return (decl + '\n' + ET.canonicalize(xml_data=text)).encode('utf-8')


def run_cli(argv):
    """segno.cli.main in-process with captured stdout / stderr; returns (exit status, stdout, stderr, had_traceback)"""
    from segno import cli
    out, err = io.StringIO(), io.StringIO()
    status = 0
    tb = False
    with contextlib.redirect_stdout(out), contextlib.redirect_stderr(err):
        try:
            r = cli.main(argv)
            status = r if isinstance(r, int) else 0
        except SystemExit as e:
            status = e.code if isinstance(e.code, int) else (0 if e.code is None else 1)
        except BaseException as e:  # noqa
            status = 'exception:' + type(e).__name__
            tb = True
    return status, out.getvalue(), err.getvalue(), tb


def route_obs(vec):
    segno = common.use_repo()
    kind, route, opts = vec['kind'], vec['route'], sorted(vec['opts'])
    qr = segno.make(CONTENT, micro=False)
    uri_only = VALUES.get('__uri_only__') or {}        # options of svg_data_uri that are not serialiser options
    opts = [k for k in opts if k != '__uri_only__']
    kw = {k: VALUES[k] for k in opts}
    o = {'_vec': dict(vec, opts=opts, given=[k for k in vec['given'] if k != '__uri_only__']), 'family': 'route', 'kind': kind, 'route': route, 'opts': opts,
         'prefix_ok': True, 'exit': 0}
    vec = o['_vec']
    # ---- the reference the harness derives (TLC checks it is the model's): save to a stream with the effective options
    if route in ('cli', 'cli_upper_ext'):
        given = sorted(set(vec['given']))
    else:
        given = sorted(set(vec['given']))
    forced = sorted(set(vec['forced']))
    ref_kw = {k: VALUES[k] for k in given}
    for f in forced:
        name, val = FORCED[f]
        ref_kw[name] = val
    o['ref_given'], o['ref_forced'] = given, forced
    try:
        ref = normalise(kind, save_stream(qr, kind, ref_kw))
        if route == 'data_uri' and kind == 'svg':
            ref = canonical_xml(ref, ref_kw.get('encoding') or 'utf-8')
        o['ref'] = digest(ref)
    except Exception as e:  # noqa
        o['ref'] = failure(e)
    # ---- the route itself
    tmp = tempfile.mkdtemp(prefix='c12_', dir=common.workdir('C12_tmp'))
    try:
        if route in ('path', 'path_upper_ext'):
            p = os.path.join(tmp, 'out.' + (kind.upper() if route == 'path_upper_ext' else kind))
            qr.save(p, **kw)
            got = open(p, 'rb').read()
        elif route in ('stream', 'stream_upper_kind'):
            got = save_stream(qr, kind, kw, kind_arg=kind.upper() if route == 'stream_upper_kind' else kind)
        elif route == 'data_uri':
            if kind == 'png':
                uri = qr.png_data_uri(**kw)
                o['prefix_ok'] = uri.startswith('data:image/png;base64,')
                got = base64.b64decode(uri.split(',', 1)[1])
            else:
                uri = qr.svg_data_uri(**kw, **uri_only)
                enc = kw.get('encoding', 'utf-8') or 'utf-8'      # encoding=None: UTF-8 without declaration
                o['prefix_ok'] = uri.startswith('data:image/svg+xml,' if uri_only.get('omit_charset') else 'data:image/svg+xml;charset=' + enc + ',')
                got = canonical_xml(urllib.parse.unquote_to_bytes(uri.split(',', 1)[1]), enc)
        elif route == 'inline':
            got = qr.svg_inline(**kw).encode(kw.get('encoding', 'utf-8') or 'utf-8')
        elif route == 'svgz_file':
            p = os.path.join(tmp, 'out.svgz')
            qr.save(p, **kw)
            got = gzip.decompress(open(p, 'rb').read())
        elif route == 'svgz_stream':
            buf = io.BytesIO()
            qr.save(buf, kind='svgz', **kw)
            got = gzip.decompress(buf.getvalue())
        elif route in ('cli', 'cli_upper_ext'):
            p = os.path.join(tmp, 'out.' + (kind.upper() if route == 'cli_upper_ext' else kind))
            argv = []
            for k in opts:
                argv += FLAGS[k]
            argv += ['--output', p, CONTENT]
            status, out, err, tb = run_cli(argv)
            o['exit'] = status if isinstance(status, int) else 99
            if os.path.exists(p) and status == 0:
                got = open(p, 'rb').read()
            else:
                # a refusal is a refusal: exit status != 0 with a message, or a ValueError that escapes main() (e.g. raised by save());
                # any other escaping exception is a different outcome
                if (not tb and 'exception' not in str(status)) or str(status) in ('exception:ValueError', 'exception:DataOverflowError'):
                    raise ValueError('cli exit %s: %s' % (status, err[:100]))
                raise RuntimeError(str(status))
        else:
            raise AssertionError(route)
        o['got'] = digest(normalise(kind, got))
    except Exception as e:  # noqa
        o['got'] = failure(e)
    finally:
        shutil.rmtree(tmp, ignore_errors=True)
    return o


def route_obs_extra(vec, extra):
    """like route_obs, with additional keyword arguments passed to both the route and the reference"""
    global VALUES
    saved = dict(VALUES)
    try:
        VALUES = dict(VALUES, **extra)
        v2 = dict(vec, opts=sorted(set(vec['opts']) | set(extra)), given=sorted(set(vec['given']) | set(extra)))
        return route_obs(v2)
    finally:
        VALUES = saved


def other_observations(tier):
    """sequence file names / contents, unknown extension, CLI without output file"""
    segno = common.use_repo()
    obs = []
    work = common.workdir('C12_tmp')
    for n_target, content, kw in ((1, 'short', {'version': 1}), (2, 'x' * 30, {'version': 1}), (3, 'Structured Append ' * 3, {'symbol_count': 3}),
                                  (16, '0123456789' * 8, {'symbol_count': 16}), (9, 'abc ' * 12, {'symbol_count': 9}), (10, 'abc ' * 12, {'symbol_count': 10})):
        seq = segno.make_sequence(content, **kw)
        for ext in ('svg', 'png', 'txt', 'PNG', 'tar.eps') if tier == 'thorough' or n_target in (1, 2, 16) else ('svg',):
            tmp = tempfile.mkdtemp(prefix='c12s_', dir=work)
            try:
                skw = {} if ext.lower().endswith('txt') else {'scale': 2}
                seq.save(os.path.join(tmp, 'name.' + ext), **skw)
                files = sorted(os.listdir(tmp))
                equal = []
                kind = ext.split('.')[-1].lower()
                for i, qr in enumerate(seq, start=1):
                    b_, _, l_ = ('name.' + ext).rpartition('.')
                    fn = ('%s-%02d-%02d.%s' % (b_, len(seq), i, l_)) if len(seq) > 1 else 'name.' + ext
                    p = os.path.join(tmp, fn)
                    want = normalise(kind, save_stream(qr, kind, skw))
                    equal.append(os.path.exists(p) and normalise(kind, open(p, 'rb').read()) == want)
                base, _, last = ('name.' + ext).rpartition('.')
                obs.append({'family': 'seq', 'n': len(seq), 'base': base, 'ext': last, 'files': files, 'equal': equal,
                            '_what': f'make_sequence({content[:12]!r}.., {kw}).save("name.{ext}")'})
            finally:
                shutil.rmtree(tmp, ignore_errors=True)
    qr = segno.make(CONTENT, micro=False)
    for name, kind in (('out.foo', None), ('out', None), ('out.svg.bak', None), (None, 'foo'), (None, 'jpg'), ('out.PNGX', None)):
        tmp = tempfile.mkdtemp(prefix='c12u_', dir=work)
        try:
            try:
                if name is not None:
                    qr.save(os.path.join(tmp, name))
                else:
                    qr.save(io.BytesIO(), kind=kind)
                st, ve = 'ok', False
            except Exception as e:  # noqa
                st, ve = 'raise', isinstance(e, ValueError)
            obs.append({'family': 'unknown_ext', 'status': st, 'is_value_error': ve, '_what': f'save({name!r}, kind={kind!r})'})
        finally:
            shutil.rmtree(tmp, ignore_errors=True)
    for flags, tkw in (([], {}), (['--border', '0'], {'border': 0}), (['--compact'], {'compact': True}), (['--border', '2', '--compact'], {'border': 2, 'compact': True}),
                       (['-b', '7'], {'border': 7})):
        status, out, err, tb = run_cli(flags + [CONTENT])
        buf = io.StringIO()
        qr.terminal(out=buf, **tkw)
        obs.append({'family': 'cli_terminal', 'exit': status if isinstance(status, int) else 99, 'stdout_sha': hashlib.sha256(out.encode()).hexdigest(),
                    'terminal_sha': hashlib.sha256(buf.getvalue().encode()).hexdigest(), '_what': f'segno {flags} <content>'})
    # the terminal output must not depend on the environment: terminal geometry given through COLUMNS / LINES, symbols narrower and
    # wider than the terminal (versions 1, 5, 11, 20 at 80 and 40 columns)
    saved_env = {k: os.environ.get(k) for k in ('COLUMNS', 'LINES')}
    try:
        for cols in ('80', '40', '200', '0'):
            os.environ['COLUMNS'], os.environ['LINES'] = cols, '24'
            for ver in (1, 5, 11, 20):
                for flags, tkw in (([], {}), (['--border', '1'], {'border': 1}), (['--compact'], {'compact': True})):
                    status, out, err, tb = run_cli(['--version', str(ver)] + flags + [CONTENT])
                    buf = io.StringIO()
                    segno.make(CONTENT, version=ver).terminal(out=buf, **tkw)
                    obs.append({'family': 'cli_terminal', 'exit': status if isinstance(status, int) else 99, 'stdout_sha': hashlib.sha256(out.encode()).hexdigest(),
                                'terminal_sha': hashlib.sha256(buf.getvalue().encode()).hexdigest(), '_what': f'COLUMNS={cols} segno --version {ver} {flags} <content>'})
    finally:
        for k, v in saved_env.items():
            if v is None:
                os.environ.pop(k, None)
            else:
                os.environ[k] = v
    # CLI versus API on a version 7 symbol (version information modules exist) for the colour-capable kinds
    qr7 = segno.make(CONTENT, version=7, micro=False)
    for kind in ('png', 'svg', 'ppm', 'eps', 'pdf'):
        for flags, kw in (([], {}), (['--dark', 'darkblue'], {'dark': 'darkblue'}), (['--finder-dark', 'red'], {'finder_dark': 'red'})):
            if kind in ('eps', 'pdf') and 'finder_dark' in kw:
                continue
            tmp = tempfile.mkdtemp(prefix='c12v_', dir=work)
            try:
                pth = os.path.join(tmp, 'out.' + kind)
                status, out, err, tb = run_cli(['--version', '7'] + flags + ['--output', pth, CONTENT])
                ok = status == 0 and os.path.exists(pth)
                got = digest(normalise(kind, open(pth, 'rb').read())) if ok else failure(RuntimeError(str(status) + err[:80]))
                ref = digest(normalise(kind, save_stream(qr7, kind, kw)))
                obs.append({'family': 'route', 'kind': kind, 'route': 'cli', 'opts': sorted(kw), 'ref_given': sorted(kw), 'ref_forced': [], 'prefix_ok': True,
                            'exit': status if isinstance(status, int) else 99, 'got': got, 'ref': ref,
                            '_vec': {'kind': kind, 'route': 'cli --version 7', 'opts': sorted(kw)}})
            finally:
                shutil.rmtree(tmp, ignore_errors=True)
    # a stream that already holds data (a header, an earlier symbol): what save() appends equals the file written by name - also for
    # encodings that start with a byte order mark
    for enc in ('utf-8', 'utf-16', 'utf-8-sig', 'utf-32', 'utf-16-le', None, 'iso-8859-1'):
        for kind in ('svg', 'txt', 'eps'):
            if kind != 'svg' and enc not in ('utf-8',):
                continue
            kw = {'encoding': enc} if kind == 'svg' else {}
            tmp = tempfile.mkdtemp(prefix='c12s_', dir=work)
            try:
                pth = os.path.join(tmp, 'out.' + kind)
                try:
                    qr.save(pth, **kw)
                    ref = digest(normalise(kind, open(pth, 'rb').read() * 2))
                except Exception as e:  # noqa
                    ref = failure(e)
                try:
                    buf = io.BytesIO() if kind in BINARY else io.StringIO()
                    buf.write(b'HEADER' if kind in BINARY else 'HEADER')
                    qr.save(buf, kind=kind, **kw)
                    qr.save(buf, kind=kind, **kw)
                    data = buf.getvalue()[6:]
                    got = digest(normalise(kind, data if isinstance(data, bytes) else data.encode('utf-8')))
                except Exception as e:  # noqa
                    got = failure(e)
                obs.append({'family': 'route', 'kind': kind, 'route': 'stream', 'opts': sorted(kw), 'ref_given': sorted(kw), 'ref_forced': [], 'prefix_ok': True,
                            'exit': 0, 'got': got, 'ref': ref, '_vec': {'kind': kind, 'route': f'stream holding data, twice, encoding={enc!r}', 'opts': sorted(kw)}})
            finally:
                shutil.rmtree(tmp, ignore_errors=True)
    # falsy flag values on the command line (0, empty string): they are values, not "flag absent"
    for kind, flags, kw in (('svg', ['--no-classes'], {'svgclass': None, 'lineclass': None}), ('svg', ['--no-classes', '--dark', 'darkblue'], {'svgclass': None, 'lineclass': None, 'dark': 'darkblue'}),
                            ('svgz', [], {}), ('svgz', ['--scale', '3', '--dark', 'darkblue', '--no-namespace'], {'scale': 3, 'dark': 'darkblue', 'svgns': False}),
                            ('svgz', ['--no-classes', '--title', 'T'], {'svgclass': None, 'lineclass': None, 'title': 'T'}),
                            ('png', ['--scale', '2.9999999'], {'scale': 2.9999999}), ('pbm', ['--scale', '3.0000001'], {'scale': 3.0000001}),
                            ('svg', ['--scale', '2.9999999'], {'scale': 2.9999999}), ('png', ['--scale', '0.9999999'], {'scale': 0.9999999}),
                            ('svg', ['--scale', '0.123456789'], {'scale': 0.123456789}), ('eps', ['--scale', '1234.5678'], {'scale': 1234.5678}),
                            ('pdf', ['--scale', '2.0'], {'scale': 2}), ('svg', ['--scale', '10.0'], {'scale': 10}),
                            # colour / cell values reach the serialiser exactly as typed (letter case: TXT and LaTeX write the value verbatim)
                            ('txt', ['--dark', 'X', '--light', '_'], {'dark': 'X', 'light': '_'}), ('txt', ['--dark', 'A', '--light', 'a'], {'dark': 'A', 'light': 'a'}),
                            ('tex', ['--dark', 'RoyalBlue'], {'dark': 'RoyalBlue'}), ('tex', ['--dark', 'BLACK', '--scale', '2'], {'dark': 'BLACK', 'scale': 2}),
                            ('svg', ['--dark', '#AbCdEf', '--light', 'YELLOW'], {'dark': '#AbCdEf', 'light': 'YELLOW'}), ('png', ['--dark', 'DarkBlue', '--light', '#FFFF00'], {'dark': 'DarkBlue', 'light': '#FFFF00'}),
                            ('svg', ['--finder-dark', 'RED'], {'finder_dark': 'RED'}), ('eps', ['--dark', 'NAVY'], {'dark': 'NAVY'}), ('xpm', ['--dark', 'Red', '--light', '#FfF'], {'dark': 'Red', 'light': '#FfF'}),
                            ('svg', ['--title', ''], {'title': ''}), ('svg', ['--desc', ''], {'desc': ''}), ('svg', ['--svgid', ''], {'svgid': ''}),
                            ('svg', ['--svgclass', ''], {'svgclass': ''}), ('svg', ['--lineclass', ''], {'lineclass': ''}), ('svg', ['--border', '0'], {'border': 0}),
                            ('png', ['--border', '0'], {'border': 0}), ('png', ['--dpi', '0'], {'dpi': 0}), ('txt', ['--border', '0'], {'border': 0}),
                            ('pdf', ['--border', '0', '--scale', '1'], {'border': 0, 'scale': 1}), ('eps', ['-b', '0'], {'border': 0}),
                            ('xbm', ['--border', '0'], {'border': 0}), ('pbm', ['--border', '0', '--scale', '2'], {'border': 0, 'scale': 2})):
        tmp = tempfile.mkdtemp(prefix='c12z_', dir=work)
        try:
            pth = os.path.join(tmp, 'out.' + kind)
            status, out, err, tb = run_cli(flags + ['--output', pth, CONTENT])
            ok = status == 0 and os.path.exists(pth)
            data = open(pth, 'rb').read() if ok else b''
            if kind == 'svgz' and ok:
                data, kind = gzip.decompress(data), 'svg'
            elif kind == 'svgz':
                kind = 'svg'
            got = digest(normalise(kind, data)) if ok else failure(ValueError(str(status)) if (not tb or str(status) == 'exception:ValueError') else RuntimeError(str(status)))
            try:
                ref = digest(normalise(kind, save_stream(qr, kind, kw)))
            except Exception as e:  # noqa
                ref = failure(e)
            obs.append({'family': 'route', 'kind': kind, 'route': 'cli', 'opts': sorted(kw), 'ref_given': sorted(kw), 'ref_forced': [], 'prefix_ok': True,
                        'exit': status if isinstance(status, int) else 99, 'got': got, 'ref': ref,
                        '_vec': {'kind': kind, 'route': 'cli ' + ' '.join(repr(f) for f in flags), 'opts': sorted(kw)}})
        finally:
            shutil.rmtree(tmp, ignore_errors=True)
    # the command line spells "no colour" as transparent / trans
    for kind in ('png', 'svg', 'xpm', 'pam'):
        for flags, kw in ((['--light', 'transparent'], {'light': None}), (['--light', 'trans', '--dark', 'darkred'], {'light': None, 'dark': 'darkred'}),
                          (['--quiet-zone', 'transparent'], {'quiet_zone': None}), (['--dark', 'transparent'], {'dark': None})):
            if kind in ('xpm', 'pam') and ('quiet_zone' in kw or kw.get('dark', 1) is None):
                continue
            tmp = tempfile.mkdtemp(prefix='c12t_', dir=work)
            try:
                pth = os.path.join(tmp, 'out.' + kind)
                status, out, err, tb = run_cli(flags + ['--output', pth, CONTENT])
                ok = status == 0 and os.path.exists(pth)
                got = digest(normalise(kind, open(pth, 'rb').read())) if ok else failure(RuntimeError(str(status) + err[:80]))
                try:
                    ref = digest(normalise(kind, save_stream(qr, kind, kw)))
                except Exception as e:  # noqa
                    ref = failure(e)
                obs.append({'family': 'route', 'kind': kind, 'route': 'cli', 'opts': sorted(kw), 'ref_given': sorted(kw), 'ref_forced': [], 'prefix_ok': True,
                            'exit': status if isinstance(status, int) else 99, 'got': got if ref['status'] == 'ok' or ok else {'status': ref['status'], 'sha': '', 'len': 0},
                            'ref': ref, '_vec': {'kind': kind, 'route': 'cli ' + ' '.join(flags), 'opts': sorted(kw)}})
            finally:
                shutil.rmtree(tmp, ignore_errors=True)
    # ONE symbol object, one route after the other with options that compare equal but are different requests ((r, g, b, 1) is nearly
    # transparent, (r, g, b, 1.0) opaque; scale 2 / 2.0 print differently in SVG): every call serialises what IT was given
    shared = segno.make(CONTENT, micro=False)
    for kind, kw in (('png', {'dark': (255, 0, 0, 1)}), ('png', {'dark': (255, 0, 0, 1.0)}), ('png', {'dark': (255, 0, 0, 1)}), ('svg', {'scale': 2}), ('svg', {'scale': 2.0}),
                     ('svg', {'scale': 2}), ('png', {'scale': 2}), ('png', {'scale': 2.0}), ('png', {'scale': 2.9}), ('svg', {'dark': (0, 0, 200, 1.0)}), ('svg', {'dark': (0, 0, 200, 1)}),
                     ('svg', {'border': 0}), ('svg', {'border': False}), ('svg', {'border': 0}), ('png', {'border': 1}), ('png', {'border': True}), ('png', {'border': 1.0})):
        for route in ('data_uri', 'inline') if kind == 'svg' else ('data_uri',):
            try:
                fresh = segno.make(CONTENT, micro=False)
                forced = {'xmldecl': False, 'nl': False} if route == 'data_uri' else {'xmldecl': False, 'svgns': False, 'nl': False}
                ref = normalise(kind, save_stream(fresh, kind, dict(kw, **(forced if kind == 'svg' else {}))))
                if kind == 'svg' and route == 'data_uri':
                    ref = canonical_xml(ref, 'utf-8')
                ref = digest(ref)
            except Exception as e:  # noqa
                ref = failure(e)
            try:
                if kind == 'png':
                    got = base64.b64decode(shared.png_data_uri(**kw).split(',', 1)[1])
                elif route == 'data_uri':
                    got = canonical_xml(urllib.parse.unquote_to_bytes(shared.svg_data_uri(**kw).split(',', 1)[1]), 'utf-8')
                else:
                    got = shared.svg_inline(**kw).encode('utf-8')
                got = digest(normalise(kind, got))
            except Exception as e:  # noqa
                got = failure(e)
            rf = [] if kind == 'png' else ['nl_false', 'xmldecl_false'] if route == 'data_uri' else ['nl_false', 'svgns_false', 'xmldecl_false']
            obs.append({'family': 'route', 'kind': kind, 'route': route, 'opts': sorted(kw), 'ref_given': sorted(kw), 'ref_forced': rf, 'prefix_ok': True,
                        'exit': 0, 'got': got, 'ref': ref, '_vec': {'kind': kind, 'route': f'{route} of one shared symbol object with {kw!r}', 'opts': sorted(kw)}})
    # data URIs of SVG documents whose texts / attributes contain quote characters
    for extra in ({'title': 'say "hi"'}, {'title': 'a="b" c'}, {'desc': "it's"}, {'svgclass': "it's"}, {'svgid': 'x'}):
        vec = {'kind': 'svg', 'route': 'data_uri', 'opts': [], 'given': [], 'forced': ['xmldecl_false', 'nl_false']}
        o = route_obs_extra(vec, extra)
        o['_what'] = f'svg via data_uri with {extra}'
        obs.append(o)
    # falsy option values (0, '', False) through every route: a route that forwards options with `if value:` / `value or default` loses them
    falsy = {'svg': [{'border': 0}, {'title': ''}, {'desc': ''}, {'svgclass': ''}, {'lineclass': ''}, {'svgid': ''}, {'unit': ''}, {'xmldecl': False, 'border': 0},
                     {'omitsize': False}, {'svgns': False, 'nl': False}, {'dark': '#000', 'light': None}],
             'png': [{'border': 0}, {'compresslevel': 0}, {'dpi': 0}, {'border': 0, 'scale': 1}], 'pdf': [{'border': 0}, {'compresslevel': 0}],
             'eps': [{'border': 0}], 'txt': [{'border': 0}], 'pbm': [{'border': 0}, {'plain': False}], 'xbm': [{'border': 0}], 'tex': [{'border': 0}, {'url': ''}],
             'pam': [{'border': 0}], 'ppm': [{'border': 0}], 'xpm': [{'border': 0}]}
    for kind, sets in falsy.items():
        routes = [('path', []), ('path_upper_ext', []), ('stream', [])]
        if kind == 'svg':
            routes += [('svgz_file', []), ('inline', ['xmldecl_false', 'svgns_false', 'nl_false']), ('data_uri', ['xmldecl_false', 'nl_false'])]
        if kind == 'png':
            routes += [('data_uri', [])]
        for extra in sets:
            for route, forced in routes:
                if route == 'inline' and set(extra) & {'xmldecl', 'svgns', 'nl'}:
                    continue
                f2 = [f for f in forced if FORCED[f][0] not in extra]
                vec = {'kind': kind, 'route': route, 'opts': [], 'given': [], 'forced': f2}
                o = route_obs_extra(vec, extra)
                o['_what'] = f'{kind} via {route} with {extra}'
                obs.append(o)
    # scale given as int, integral float and fractional float through every route of the kinds that accept a float
    for sc in (2, 2.0, 10.0, 1.0, 2.5, 0.5):
        for kind, routes in (('svg', (('path', []), ('stream', []), ('svgz_file', []), ('svgz_stream', []), ('inline', ['xmldecl_false', 'svgns_false', 'nl_false']),
                                     ('data_uri', ['xmldecl_false', 'nl_false']))),
                             ('png', (('path', []), ('stream', []), ('data_uri', []))), ('eps', (('path', []), ('stream', []))),
                             ('pdf', (('path', []), ('stream', []))), ('tex', (('path', []), ('stream', []))), ('pbm', (('path', []), ('stream', [])))):
            if sc < 1 and kind in ('png', 'pbm'):
                continue
            for route, forced in routes:
                vec = {'kind': kind, 'route': route, 'opts': [], 'given': [], 'forced': forced}
                o = route_obs_extra(vec, {'scale': sc})
                o['_what'] = f'{kind} via {route} with scale={sc!r}'
                obs.append(o)
    # options of the data URI route only (omit_charset, encode_minimal): they change the URI, never the document
    for extra in ({'omit_charset': True}, {'encode_minimal': True}, {'omit_charset': True, 'encode_minimal': True}):
        for more in ({}, {'encoding': 'iso-8859-1', 'title': 'T\xe4'}, {'encoding': 'iso-8859-1', 'xmldecl': True}, {'title': 'Gr\xfc\xdfe \u20ac', 'desc': 'a b/c:d'},
                     {'encoding': 'utf-16', 'xmldecl': True}, {'svgclass': 'a b', 'unit': 'mm'}):
            segno_kw = dict(more)
            forced = ['nl_false'] + ([] if 'xmldecl' in more else ['xmldecl_false'])
            vec = {'kind': 'svg', 'route': 'data_uri', 'opts': [], 'given': [], 'forced': forced}
            o = route_obs_extra(vec, dict(segno_kw, **{'__uri_only__': extra}))
            o['_what'] = f'svg via data_uri with {more} and {extra}'
            obs.append(o)
    # encoding=None (UTF-8 document without an encoding declaration, tests/test_svg.py::test_encoding_none) through every SVG route
    for route, forced in (('path', []), ('stream', []), ('svgz_file', []), ('svgz_stream', []), ('inline', ['xmldecl_false', 'svgns_false', 'nl_false']),
                          ('data_uri', ['xmldecl_false', 'nl_false']), ('data_uri', ['nl_false'])):
        for more in ({}, {'title': 'T\xe4'}):
            extra = dict({'encoding': None}, **more)
            if route == 'data_uri' and 'xmldecl_false' not in forced:
                extra['xmldecl'] = True
            vec = {'kind': 'svg', 'route': route, 'opts': [], 'given': [], 'forced': forced}
            o = route_obs_extra(vec, extra)
            o['_what'] = f'svg via {route} with {extra}'
            obs.append(o)
    return obs


def subprocess_observations():
    segno = common.use_repo()
    qr = segno.make(CONTENT, micro=False)
    obs = []
    work = common.workdir('C12_tmp')
    for kind in ('png', 'svg', 'txt', 'pbm', 'eps', 'svgz'):
        tmp = tempfile.mkdtemp(prefix='c12p_', dir=work)
        try:
            p = os.path.join(tmp, 'out.' + kind)
            env = dict(os.environ, PYTHONPATH=common.REPO)
            r = subprocess.run([sys.executable, '-m', 'segno.cli', '--scale', '2', '-o', p, CONTENT], env=env, capture_output=True, timeout=120)
            k = 'svg' if kind == 'svgz' else kind
            got = open(p, 'rb').read() if os.path.exists(p) else b''
            if kind == 'svgz' and got:
                got = gzip.decompress(got)
            sup = kind != 'txt'
            ref = normalise(k, save_stream(qr, k, {'scale': 2} if sup else {}))
            obs.append({'family': 'route', 'kind': k, 'route': 'cli' if kind != 'svgz' else 'svgz_file', 'opts': ['scale'] if kind != 'svgz' or True else [], 'ref_given': ['scale'] if sup else [], 'ref_forced': [],
                        'prefix_ok': True, 'exit': r.returncode, 'got': digest(normalise(k, got)) if r.returncode == 0 else failure(ValueError()),
                        'ref': digest(ref), '_vec': {'kind': k, 'route': 'subprocess ' + kind, 'opts': ['scale']}})
        finally:
            shutil.rmtree(tmp, ignore_errors=True)
    return obs


# ------------------------------------------------------------------ Cli.tla: the tool as a front end of the factory functions
CLI_VALUES = {'version': {'int': '5', 'micro_upper': 'M4', 'micro_lower': 'm4', 'big': '41', 'junk': 'x'},
              'error': {'L': 'L', 'lower_m': 'm', 'H': 'H', 'dash': '-', 'bad': 'x'},
              'mode': {'byte': 'byte', 'upper_numeric': 'NUMERIC', 'bad': 'foo'},
              'pattern': {'zero': '0', 'two': '2', 'nine': '9', 'junk': 'x'}, 'encoding': {'utf8': 'utf-8'}, 'count': {'two': '2', 'junk': 'x'}}
CLI_CONTENT = {'digits': ['0123456789'], 'two_words': ['Hello', 'World'], 'text': ['Segno']}
API_VALUES = {'version': {'none': None, 'int': '5', 'micro_upper': 'M4', 'micro_lower': 'm4', 'big': '41', 'junk': 'x'},
              'error': {'none': None, 'L': 'L', 'M': 'M', 'H': 'H'}, 'mode': {'none': None, 'byte': 'byte', 'numeric': 'numeric'},
              'mask': {'none': None, 'zero': 0, 'two': 2, 'nine': 9}, 'encoding': {'none': None, 'utf8': 'utf-8'}, 'count': {'none': None, 'two': 2},
              'micro': {'none': None, 'true': True, 'false': False}}


def cli_factory_obs(vec):
    """one vector of Cli.tla: the tool is run in-process with the flags; the reference is the API call the SPECIFICATION arrives at"""
    segno = common.use_repo()
    fl, api = vec['flags'], vec['api']
    argv = []
    for k, flag in (('version', '--version'), ('error', '--error'), ('mode', '--mode'), ('pattern', '--pattern'), ('encoding', '--encoding'), ('count', '--symbol-count')):
        if fl[k] != 'none':
            argv += [flag, CLI_VALUES[k][fl[k]]]
    if fl['micro'] != 'none':
        argv.append('--micro' if fl['micro'] == 'micro' else '--no-micro')
    if not fl['boost']:
        argv.append('--no-error-boost')
    if fl['seq']:
        argv.append('--seq')
    words = CLI_CONTENT[fl['content']]
    o = {'flags': fl, '_vec': {'kind': 'txt', 'route': 'cli factory flags', 'opts': sorted(k for k in fl if fl[k] not in ('none', True, False) or k in ('boost', 'seq') and fl[k] != (k == 'boost'))},
         '_what': 'cli ' + ' '.join(argv + words), 'ref_call': api}
    tmp = tempfile.mkdtemp(prefix='c12f_', dir=common.workdir('C12_tmp'))
    try:
        p = os.path.join(tmp, 'out.txt')
        status, out, err, tb = run_cli(argv + ['--output', p] + words)
        files = sorted(x for x in os.listdir(tmp))
        h = hashlib.sha256()
        for x in files:
            h.update(x.encode() + b'\0' + open(os.path.join(tmp, x), 'rb').read() + b'\0')
        o['cli'] = {'exit': status if isinstance(status, int) else 99, 'files': len(files), 'sha': h.hexdigest() if files else '', 'stderr_len': len(err), 'traceback': bool(tb)}
        # ---- reference: the call of the specification
        ref = {'status': 'none', 'files': 0, 'sha': ''}
        if api.get('fn') in ('make', 'make_sequence'):
            kw = {'version': API_VALUES['version'][api['version']], 'error': API_VALUES['error'][api['error']], 'mode': API_VALUES['mode'][api['mode']],
                  'mask': API_VALUES['mask'][api['mask']], 'encoding': API_VALUES['encoding'][api['encoding']], 'boost_error': api['boost']}
            if api['fn'] == 'make':
                kw['micro'] = API_VALUES['micro'][api['micro']]
            else:
                kw['symbol_count'] = API_VALUES['count'][api['count']]
            tmp2 = tempfile.mkdtemp(prefix='c12g_', dir=common.workdir('C12_tmp'))
            try:
                qr = getattr(segno, api['fn'])(' '.join(words), **kw)
                qr.save(os.path.join(tmp2, 'out.txt'))
                files2 = sorted(os.listdir(tmp2))
                h = hashlib.sha256()
                for x in files2:
                    h.update(x.encode() + b'\0' + open(os.path.join(tmp2, x), 'rb').read() + b'\0')
                ref = {'status': 'ok', 'files': len(files2), 'sha': h.hexdigest()}
            except ValueError:
                ref = {'status': 'ValueError', 'files': 0, 'sha': ''}
            except Exception as e:  # noqa
                ref = {'status': type(e).__name__, 'files': 0, 'sha': ''}
            finally:
                shutil.rmtree(tmp2, ignore_errors=True)
        o['ref'] = ref
    finally:
        shutil.rmtree(tmp, ignore_errors=True)
    return o


def cli_factory_part(rep, tier):
    cfg = 'Cli_quick.cfg' if tier == 'quick' else 'Cli_thorough.cfg'
    out, st = common.run_tlc('Cli', cfg=cfg, workers=4, timeout=1500, xmx='6g', coverage=True)
    rep.add_design('Cli', cfg, out, st, 'the tool as a front end of make / make_sequence: Parse, MakeCode, Emit; invariants MicroVersionUsable, NoMicroByDefault, '
                   'DashIsNone, KeywordsMatchFactory; export of <flags, API call> vectors')
    vecs = common.parse_vectors(out)
    rep.notes['cli_factory_vectors_exported_by_tlc'] = len(vecs)
    with mp.get_context('fork').Pool(common.NCPU) as pool:
        obs = pool.map(common.limited, [(cli_factory_obs, v_) for v_ in vecs], chunksize=max(1, len(vecs) // 128))
    rep.evaluations += len(obs)
    verdicts, st = common.validate_observations(rep.pid, 'Trace_Cli', obs, tag='cli')
    rep.add_trace_stats(st, len(obs))
    for o in obs:
        v = verdicts[o['tid']]
        fails = sorted(c for (p, c) in v['fails'])
        rep.keys.add(o['_what'])
        rep.sample({'route': o['_what'], 'spec': v['facts'].get('spec_out'), 'api_call': v['facts'].get('api'), 'exit': o['cli']['exit'], 'reference': o['ref']['status'], 'tlc_fails': fails})
        if fails:
            rep.violation({'kind': 'routes', 'module': 'props_routes', 'cli_vector': {'flags': o['flags'], 'api': o['ref_call']}, 'what': o['_what'], 'failing_clauses': fails,
                           'got': o['cli'], 'ref': o['ref']}, f"{o['_what']}: exit {o['cli']['exit']}, reference {o['ref']['status']}; fails {fails}")


def run_c12(rep, tier):
    cfg = 'Routes_quick.cfg' if tier == 'quick' else 'Routes_thorough.cfg'
    out, st = common.run_tlc('Routes', cfg=cfg, workers=4, timeout=1500, xmx='6g', coverage=True)
    rep.add_design('Routes', cfg, out, st, 'kinds x routes x option sets; invariants SameDocument, CliDropsUnsupported; export of route vectors')
    vecs = common.parse_vectors(out)
    rep.notes['route_vectors_exported_by_tlc'] = len(vecs)
    with mp.get_context('fork').Pool(common.NCPU) as pool:
        obs = pool.map(common.limited, [(route_obs, v_) for v_ in vecs], chunksize=max(1, len(vecs) // 256))
    obs += other_observations(tier)
    obs += subprocess_observations()
    rep.evaluations = len(obs)
    cli_factory_part(rep, tier)
    verdicts, st = common.validate_observations(rep.pid, 'Trace_Routes', obs, tag='routes')
    rep.add_trace_stats(st, len(obs))
    for o in obs:
        v = verdicts[o['tid']]
        fails = sorted(c for (p, c) in v['fails'])
        what = o.get('_what') or f"{o['_vec']['kind']} via {o['_vec']['route']} with {sorted(o['_vec']['opts'])}"
        rep.keys.add(what)
        rep.sample({'route': what, 'got': o.get('got'), 'reference': o.get('ref'), 'tlc_fails': fails})
        if fails:
            kf = engine.match_known(rep.pid, fails, [], [k for k in rep.known if k.get('signature') in (None, what) or what.startswith(k.get('signature', '\0'))])
            if kf:
                rep.known_hit(kf, {'route': what, 'clauses': fails})
            else:
                rep.violation({'kind': 'routes', 'module': 'props_routes', 'vector': o.get('_vec'), 'what': what, 'failing_clauses': fails,
                               'got': o.get('got'), 'ref': o.get('ref')}, f'{what}: got {o.get("got", {}).get("status")} / reference {o.get("ref", {}).get("status")}; fails {fails}')
    shutil.rmtree(common.workdir('C12_tmp'), ignore_errors=True)
    rep.trusted += ['gzip, base64, percent decoding, SHA-256, XML canonicalisation (xml.etree) of the Python standard library',
                    'timestamp normalisation (CreationDate / Date lines) in harness/props_routes.py']
    rep.rule = ('spec -> code: TLC enumerates kinds x routes {path, PATH.EXT, stream kind=, KIND, data URI, svg_inline, .svgz file / stream, '
                'CLI, CLI upper-case extension} x option sets (each single option; thorough: pairs) with the effective options of the '
                'reference call; route and reference are executed and compared (SHA-256 of the normalised bytes) by TLC; plus sequence file '
                'names / contents, unknown extensions, CLI terminal output, real subprocess runs; distinct = distinct (kind, route, options)')


def replay(pid, d):
    common.use_repo()
    if d.get('cli_vector'):
        o = cli_factory_obs(d['cli_vector'])
        print('route   :', o['_what'])
        print('tool    :', o['cli'], ' reference:', o['ref'])
        verdicts, _ = common.validate_observations(pid + '_replay', 'Trace_Cli', [o], shards=1, tag='cli')
        fails = sorted(c for (p, c) in verdicts[o['tid']]['fails'])
        print('verdict :', fails)
        if fails:
            print(f'VIOLATION property={pid} replay=(this file)')
        return 1 if fails else 0
    if not d.get('vector'):
        print('not replayable individually:', d.get('what'))
        return 1
    o = route_obs(d['vector'])
    print('route   :', d.get('what'))
    print('got     :', o.get('got'), ' reference:', o.get('ref'))
    verdicts, _ = common.validate_observations(pid + '_replay', 'Trace_Routes', [o], shards=1, tag='routes')
    v = verdicts[o['tid']]
    fails = sorted(c for (p, c) in v['fails'])
    print('verdict :', fails)
    if not fails:
        return 0
    print(f'VIOLATION property={pid} replay=(this file)')
    return 1


REGISTRY = {'C12': run_c12}
